"""Child interpreter of history-sim: started with a chosen PYTHONHASHSEED,
reads one JSON history per line on stdin, answers one JSON line of
per-operation records.  Builds all long-lived objects afresh for every
history."""
import json
import sys


def main():
    import verif  # noqa
    from verif.engines import history_sim as hs
    for line in sys.stdin:
        line = line.strip()
        if not line:
            continue
        if line == 'quit':
            break
        try:
            hist = json.loads(line)
            recs = hs.run_history(hist)
            out = {'ok': True, 'recs': recs}
        except BaseException as e:  # noqa
            import traceback
            out = {'ok': False, 'error': '%s: %s\n%s' % (type(e).__name__, e, traceback.format_exc())}
        sys.stdout.write(json.dumps(out) + '\n')
        sys.stdout.flush()


if __name__ == '__main__':
    main()
