"""Minimal hand-written ASN.1 texts of the three base modules every compile
needs (the symbol-table builder always imports from them and OID resolution
walks into SNMPv2-SMI).  Cut down from RFC 2578/2579/2580: OID roots, the
MACRO definitions (which the lexer skips), the application types and the two
textual conventions the generators use."""

SNMPV2_SMI = """\
SNMPv2-SMI DEFINITIONS ::= BEGIN

-- the path to the root

org            OBJECT IDENTIFIER ::= { iso 3 }  --  "iso" = 1
dod            OBJECT IDENTIFIER ::= { org 6 }
internet       OBJECT IDENTIFIER ::= { dod 1 }

directory      OBJECT IDENTIFIER ::= { internet 1 }

mgmt           OBJECT IDENTIFIER ::= { internet 2 }
mib-2          OBJECT IDENTIFIER ::= { mgmt 1 }
transmission   OBJECT IDENTIFIER ::= { mib-2 10 }

experimental   OBJECT IDENTIFIER ::= { internet 3 }

private        OBJECT IDENTIFIER ::= { internet 4 }
enterprises    OBJECT IDENTIFIER ::= { private 1 }

security       OBJECT IDENTIFIER ::= { internet 5 }

snmpV2         OBJECT IDENTIFIER ::= { internet 6 }

-- transport domains
snmpDomains    OBJECT IDENTIFIER ::= { snmpV2 1 }

-- transport proxies
snmpProxys     OBJECT IDENTIFIER ::= { snmpV2 2 }

-- module identities
snmpModules    OBJECT IDENTIFIER ::= { snmpV2 3 }

zeroDotZero    OBJECT IDENTIFIER ::= { 0 0 }

MODULE-IDENTITY MACRO ::=
BEGIN
    TYPE NOTATION ::=
                  "LAST-UPDATED" value(Update ExtUTCTime)
    VALUE NOTATION ::=
                  value(VALUE OBJECT IDENTIFIER)
END

OBJECT-IDENTITY MACRO ::=
BEGIN
    TYPE NOTATION ::=
                  "STATUS" Status
    VALUE NOTATION ::=
                  value(VALUE OBJECT IDENTIFIER)
END

-- application-wide types

Integer32 ::=
        INTEGER (-2147483648..2147483647)

IpAddress ::=
    [APPLICATION 0]
        IMPLICIT OCTET STRING (SIZE (4))

Counter32 ::=
    [APPLICATION 1]
        IMPLICIT INTEGER (0..4294967295)

Gauge32 ::=
    [APPLICATION 2]
        IMPLICIT INTEGER (0..4294967295)

Unsigned32 ::=
    [APPLICATION 2]
        IMPLICIT INTEGER (0..4294967295)

TimeTicks ::=
    [APPLICATION 3]
        IMPLICIT INTEGER (0..4294967295)

Opaque ::=
    [APPLICATION 4]
        IMPLICIT OCTET STRING

Counter64 ::=
    [APPLICATION 6]
        IMPLICIT INTEGER (0..18446744073709551615)

OBJECT-TYPE MACRO ::=
BEGIN
    TYPE NOTATION ::=
                  "SYNTAX" Syntax
    VALUE NOTATION ::=
                  value(VALUE ObjectName)
END

NOTIFICATION-TYPE MACRO ::=
BEGIN
    TYPE NOTATION ::=
                  ObjectsPart
    VALUE NOTATION ::=
                  value(VALUE NotificationName)
END

END
"""

SNMPV2_TC = """\
SNMPv2-TC DEFINITIONS ::= BEGIN

IMPORTS
    TimeTicks         FROM SNMPv2-SMI;

TEXTUAL-CONVENTION MACRO ::=
BEGIN
    TYPE NOTATION ::=
                  DisplayPart
    VALUE NOTATION ::=
                   value(VALUE Syntax)
END

DisplayString ::= TEXTUAL-CONVENTION
    DISPLAY-HINT "255a"
    STATUS       current
    DESCRIPTION
            "Represents textual information taken from the NVT ASCII
            character set."
    SYNTAX       OCTET STRING (SIZE (0..255))

PhysAddress ::= TEXTUAL-CONVENTION
    DISPLAY-HINT "1x:"
    STATUS       current
    DESCRIPTION
            "Represents media- or physical-level addresses."
    SYNTAX       OCTET STRING

TruthValue ::= TEXTUAL-CONVENTION
    STATUS       current
    DESCRIPTION
            "Represents a boolean value."
    SYNTAX       INTEGER { true(1), false(2) }

RowStatus ::= TEXTUAL-CONVENTION
    STATUS       current
    DESCRIPTION
            "Row status."
    SYNTAX       INTEGER {
                     active(1),
                     notInService(2),
                     notReady(3),
                     createAndGo(4),
                     createAndWait(5),
                     destroy(6)
                 }

TimeStamp ::= TEXTUAL-CONVENTION
    STATUS       current
    DESCRIPTION
            "The value of the sysUpTime object at which a specific
            occurrence happened."
    SYNTAX       TimeTicks

END
"""

SNMPV2_CONF = """\
SNMPv2-CONF DEFINITIONS ::= BEGIN

IMPORTS ObjectName, NotificationName, ObjectSyntax
                                               FROM SNMPv2-SMI;

OBJECT-GROUP MACRO ::=
BEGIN
    TYPE NOTATION ::=
                  ObjectsPart
    VALUE NOTATION ::=
                  value(VALUE OBJECT IDENTIFIER)
END

NOTIFICATION-GROUP MACRO ::=
BEGIN
    TYPE NOTATION ::=
                  NotificationsPart
    VALUE NOTATION ::=
                  value(VALUE OBJECT IDENTIFIER)
END

MODULE-COMPLIANCE MACRO ::=
BEGIN
    TYPE NOTATION ::=
                  "STATUS" Status
    VALUE NOTATION ::=
                  value(VALUE OBJECT IDENTIFIER)
END

AGENT-CAPABILITIES MACRO ::=
BEGIN
    TYPE NOTATION ::=
                  "PRODUCT-RELEASE" Text
    VALUE NOTATION ::=
                  value(VALUE OBJECT IDENTIFIER)
END

END
"""

RFC1155_SMI = """\
RFC1155-SMI DEFINITIONS ::= BEGIN

EXPORTS -- EVERYTHING
        internet, directory, mgmt,
        experimental, private, enterprises,
        OBJECT-TYPE, ObjectName, ObjectSyntax, SimpleSyntax,
        ApplicationSyntax, NetworkAddress, IpAddress,
        Counter, Gauge, TimeTicks, Opaque;

internet      OBJECT IDENTIFIER ::= { iso org(3) dod(6) 1 }

directory     OBJECT IDENTIFIER ::= { internet 1 }
mgmt          OBJECT IDENTIFIER ::= { internet 2 }
experimental  OBJECT IDENTIFIER ::= { internet 3 }
private       OBJECT IDENTIFIER ::= { internet 4 }
enterprises   OBJECT IDENTIFIER ::= { private 1 }

OBJECT-TYPE MACRO ::=
BEGIN
    TYPE NOTATION ::= "SYNTAX" type (TYPE ObjectSyntax)
    VALUE NOTATION ::= value (VALUE ObjectName)
END

END
"""

RFC_1212 = """\
RFC-1212 DEFINITIONS ::= BEGIN

IMPORTS
    ObjectName
        FROM RFC1155-SMI;

OBJECT-TYPE MACRO ::=
BEGIN
    TYPE NOTATION ::= "SYNTAX" type (TYPE ObjectSyntax)
    VALUE NOTATION ::= value (VALUE ObjectName)
END

END
"""

SMIV1_BASE = {
    'RFC1155-SMI': RFC1155_SMI,
    'RFC-1212': RFC_1212,
}

BASE = {
    'SNMPv2-SMI': SNMPV2_SMI,
    'SNMPv2-TC': SNMPV2_TC,
    'SNMPv2-CONF': SNMPV2_CONF,
}
BASE_NAMES = tuple(sorted(BASE))

ALL_BASE = dict(BASE)
ALL_BASE.update(SMIV1_BASE)
ALL_BASE_NAMES = tuple(sorted(ALL_BASE))
