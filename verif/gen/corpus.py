"""Corpus of well-formed MIB files with line-level ground truth, for the
corruption engine (C11) and the history engine (C12).

Each file is assembled from lines tagged with what they are, so that the
generator knows, without consulting pysmi: where each module starts and
ends, on which lines a new top-level declaration starts (safe insertion
points, in INITIAL lexer state), which characters lie inside comments, and
which lines start with plain indentation outside any quoted string."""

# kinds: code, decl (first line of a top-level declaration), comment, str (continuation of a quoted string),
#        skip (inside MACRO/EXPORTS/CHOICE), blank, head (module header), end (END)


def L(kind, text):
    return (kind, text)


def module_full(name='FULL-MIB', arc=4242):
    n = name.split('-')[0].lower()
    ls = [
        L('comment', '-- leading comment of %s' % name),
        L('head', '%s DEFINITIONS ::= BEGIN' % name),
        L('blank', ''),
        L('decl', 'IMPORTS'),
        L('code', '    MODULE-IDENTITY, OBJECT-TYPE, OBJECT-IDENTITY, NOTIFICATION-TYPE,'),
        L('code', '    Integer32, Counter32, Counter64, Gauge32, Unsigned32, TimeTicks, IpAddress, enterprises'),
        L('code', '        FROM SNMPv2-SMI'),
        L('code', '    TEXTUAL-CONVENTION, DisplayString, RowStatus, TruthValue'),
        L('code', '        FROM SNMPv2-TC      -- a comment after code'),
        L('code', '    MODULE-COMPLIANCE, OBJECT-GROUP, NOTIFICATION-GROUP, AGENT-CAPABILITIES'),
        L('code', '        FROM SNMPv2-CONF;'),
        L('blank', ''),
        L('decl', '%sMIB MODULE-IDENTITY' % n),
        L('code', '    LAST-UPDATED "202001020304Z"'),
        L('code', '    ORGANIZATION "Example, Inc."'),
        L('code', '    CONTACT-INFO'),
        L('code', '        "postal: 1 Some Street'),
        L('str', '                 Some Town'),
        L('str', '         email:  someone@example.com"'),
        L('code', '    DESCRIPTION'),
        L('code', '        "A module exercising every clause kind. \x0c(form feed) \x0b(vertical tab) \x1c\x1d\x1e \x85 \u2028 \u2029 legal inside a string.'),
        L('str', ''),
        L('str', '         Second paragraph -- not a comment, this is text."'),
        L('code', '    REVISION "202001020304Z"'),
        L('code', '    DESCRIPTION "second revision"'),
        L('code', '    REVISION "201901010000Z"'),
        L('code', '    DESCRIPTION "first revision"'),
        L('code', '    ::= { enterprises %d }' % arc),
        L('blank', ''),
        L('comment', '-- a comment between declarations; with "quotes" and braces { }'),
        L('decl', '%sObjects OBJECT IDENTIFIER ::= { %sMIB 1 }' % (n, n)),
        L('decl', '%sNotifs OBJECT IDENTIFIER ::= { %sMIB 0 }' % (n, n)),
        L('decl', '%sConf OBJECT IDENTIFIER ::= { %sMIB 2 }' % (n, n)),
        L('blank', ''),
        L('decl', '%sIdent OBJECT-IDENTITY' % n),
        L('code', '    STATUS current'),
        L('code', '    DESCRIPTION "an identity"'),
        L('code', '    REFERENCE "RFC 0000"'),
        L('code', '    ::= { %sObjects 1 }' % n),
        L('blank', ''),
        L('decl', '%sKind ::= TEXTUAL-CONVENTION' % n.capitalize()),
        L('code', '    DISPLAY-HINT "d-2"'),
        L('code', '    STATUS current'),
        L('code', '    DESCRIPTION "a convention"'),
        L('code', '    SYNTAX Integer32 (-5..-1 | 0 | 10..2147483647)'),
        L('blank', ''),
        L('decl', '%sName ::= OCTET STRING (SIZE (0..32 | 64))' % n.capitalize()),
        L('blank', ''),
        L('decl', '%sScalar OBJECT-TYPE' % n),
        L('code', '    SYNTAX INTEGER { up(1), down(2), testing(3) }'),
        L('code', '    MAX-ACCESS read-write'),
        L('code', '    STATUS current'),
        L('code', '    DESCRIPTION "a scalar"'),
        L('code', '    DEFVAL { up }'),
        L('code', '    ::= { %sObjects 2 }' % n),
        L('blank', ''),
        L('decl', '%sBig OBJECT-TYPE' % n),
        L('code', '    SYNTAX Counter64'),
        L('code', '    UNITS "octets"'),
        L('code', '    MAX-ACCESS read-only'),
        L('code', '    STATUS current'),
        L('code', '    DESCRIPTION "a big counter"'),
        L('code', '    ::= { %sObjects 3 }' % n),
        L('blank', ''),
        L('decl', '%sFlags OBJECT-TYPE' % n),
        L('code', '    SYNTAX BITS { first(0), second(1), last(7) }'),
        L('code', '    MAX-ACCESS read-write'),
        L('code', '    STATUS current'),
        L('code', '    DESCRIPTION "bits"'),
        L('code', '    DEFVAL { { first, last } }'),
        L('code', '    ::= { %sObjects 4 }' % n),
        L('blank', ''),
        L('decl', '%sHex OBJECT-TYPE' % n),
        L('code', '    SYNTAX OCTET STRING (SIZE (4))'),
        L('code', '    MAX-ACCESS read-write'),
        L('code', '    STATUS current'),
        L('code', '    DESCRIPTION "hex default"'),
        L('code', "    DEFVAL { 'c0a80001'H }"),
        L('code', '    ::= { %sObjects 5 }' % n),
        L('blank', ''),
        L('decl', '%sTable OBJECT-TYPE' % n),
        L('code', '    SYNTAX SEQUENCE OF %sEntry' % n.capitalize()),
        L('code', '    MAX-ACCESS not-accessible'),
        L('code', '    STATUS current'),
        L('code', '    DESCRIPTION "a table"'),
        L('code', '    ::= { %sObjects 6 }' % n),
        L('blank', ''),
        L('decl', '%sEntry OBJECT-TYPE' % n),
        L('code', '    SYNTAX %sEntry' % n.capitalize()),
        L('code', '    MAX-ACCESS not-accessible'),
        L('code', '    STATUS current'),
        L('code', '    DESCRIPTION "a row"'),
        L('code', '    INDEX { %sIndex, IMPLIED %sLabel }' % (n, n)),
        L('code', '    ::= { %sTable 1 }' % n),
        L('blank', ''),
        L('decl', '%sEntry ::= SEQUENCE {' % n.capitalize()),
        L('code', '    %sIndex   Unsigned32,' % n),
        L('code', '    %sLabel   DisplayString,' % n),
        L('code', '    %sStatus  RowStatus' % n),
        L('code', '}'),
        L('blank', ''),
        L('decl', '%sIndex OBJECT-TYPE' % n),
        L('code', '    SYNTAX Unsigned32 (1..4294967295)'),
        L('code', '    MAX-ACCESS not-accessible'),
        L('code', '    STATUS current'),
        L('code', '    DESCRIPTION "index"'),
        L('code', '    ::= { %sEntry 1 }' % n),
        L('blank', ''),
        L('decl', '%sLabel OBJECT-TYPE' % n),
        L('code', '    SYNTAX DisplayString (SIZE (1..16))'),
        L('code', '    MAX-ACCESS not-accessible'),
        L('code', '    STATUS current'),
        L('code', '    DESCRIPTION "label"'),
        L('code', '    ::= { %sEntry 2 }' % n),
        L('blank', ''),
        L('decl', '%sStatus OBJECT-TYPE' % n),
        L('code', '    SYNTAX RowStatus'),
        L('code', '    MAX-ACCESS read-create'),
        L('code', '    STATUS current'),
        L('code', '    DESCRIPTION "status"'),
        L('code', '    ::= { %sEntry 3 }' % n),
        L('blank', ''),
        L('decl', '%sEvent NOTIFICATION-TYPE' % n),
        L('code', '    OBJECTS { %sScalar, %sBig }' % (n, n)),
        L('code', '    STATUS current'),
        L('code', '    DESCRIPTION "an event"'),
        L('code', '    ::= { %sNotifs 1 }' % n),
        L('blank', ''),
        L('decl', '%sGroup OBJECT-GROUP' % n),
        L('code', '    OBJECTS { %sScalar, %sBig, %sFlags, %sHex, %sStatus }' % (n, n, n, n, n)),
        L('code', '    STATUS current'),
        L('code', '    DESCRIPTION "objects"'),
        L('code', '    ::= { %sConf 1 }' % n),
        L('blank', ''),
        L('decl', '%sEventGroup NOTIFICATION-GROUP' % n),
        L('code', '    NOTIFICATIONS { %sEvent }' % n),
        L('code', '    STATUS current'),
        L('code', '    DESCRIPTION "notifications"'),
        L('code', '    ::= { %sConf 2 }' % n),
        L('blank', ''),
        L('decl', '%sCompliance MODULE-COMPLIANCE' % n),
        L('code', '    STATUS current'),
        L('code', '    DESCRIPTION "compliance"'),
        L('code', '    MODULE -- this module'),
        L('code', '        MANDATORY-GROUPS { %sGroup }' % n),
        L('code', '        GROUP %sEventGroup' % n),
        L('code', '        DESCRIPTION "optional"'),
        L('code', '        OBJECT %sScalar' % n),
        L('code', '        MIN-ACCESS read-only'),
        L('code', '        DESCRIPTION "write not required"'),
        L('code', '    ::= { %sConf 3 }' % n),
        L('blank', ''),
        L('decl', '%sAgent AGENT-CAPABILITIES' % n),
        L('code', '    PRODUCT-RELEASE "release 1"'),
        L('code', '    STATUS current'),
        L('code', '    DESCRIPTION "capabilities"'),
        L('code', '    SUPPORTS %s' % name),
        L('code', '        INCLUDES { %sGroup }' % n),
        L('code', '        VARIATION %sScalar' % n),
        L('code', '            ACCESS read-only'),
        L('code', '            DESCRIPTION "limited"'),
        L('code', '    ::= { %sConf 4 }' % n),
        L('blank', ''),
        L('comment', '-- trailing comment inside the module'),
        L('end', 'END'),
    ]
    return ls


def module_v1(name='OLD-MIB', arc=4343):
    n = name.split('-')[0].lower()
    return [
        L('head', '%s DEFINITIONS ::= BEGIN' % name),
        L('decl', 'EXPORTS'),
        L('skip', '    everything, and, more'),
        L('skip', '    on several lines;'),
        L('decl', 'IMPORTS'),
        L('code', '    enterprises, Counter, Gauge, TimeTicks, IpAddress, NetworkAddress'),
        L('code', '        FROM RFC1155-SMI'),
        L('code', '    OBJECT-TYPE FROM RFC-1212;'),
        L('blank', ''),
        L('decl', '%s OBJECT IDENTIFIER ::= { enterprises %d }' % (n, arc)),
        L('blank', ''),
        L('decl', 'TRAP-TYPE MACRO ::='),
        L('skip', 'BEGIN'),
        L('skip', '    TYPE NOTATION ::= "WORD" value(x INTEGER)'),
        L('skip', '    VALUE NOTATION ::= value(VALUE OBJECT IDENTIFIER) @ $ anything goes'),
        L('end', 'END'),
        L('blank', ''),
        L('decl', '%sChoice ::= CHOICE {' % n.capitalize()),
        L('skip', '    one INTEGER,'),
        L('skip', '    two OCTET STRING'),
        L('skip', '}'),
        L('blank', ''),
        L('decl', '%sCount OBJECT-TYPE' % n),
        L('code', '    SYNTAX Counter'),
        L('code', '    ACCESS read-only'),
        L('code', '    STATUS mandatory'),
        L('code', '    DESCRIPTION "v1 counter"'),
        L('code', '    ::= { %s 1 }' % n),
        L('blank', ''),
        L('decl', '%sNeg OBJECT-TYPE' % n),
        L('code', '    SYNTAX INTEGER (-2147483648..2147483647)'),
        L('code', '    ACCESS read-write'),
        L('code', '    STATUS mandatory'),
        L('code', '    DESCRIPTION "negative default"'),
        L('code', '    DEFVAL { -42 }'),
        L('code', '    ::= { %s 2 }' % n),
        L('blank', ''),
        L('decl', '%sTable OBJECT-TYPE' % n),
        L('code', '    SYNTAX SEQUENCE OF %sRow' % n.capitalize()),
        L('code', '    ACCESS not-accessible'),
        L('code', '    STATUS mandatory'),
        L('code', '    ::= { %s 3 }' % n),
        L('decl', '%sRowEntry OBJECT-TYPE' % n),
        L('code', '    SYNTAX %sRow' % n.capitalize()),
        L('code', '    ACCESS not-accessible'),
        L('code', '    STATUS mandatory'),
        L('code', '    INDEX { %sAddr }' % n),
        L('code', '    ::= { %sTable 1 }' % n),
        L('decl', '%sRow ::= SEQUENCE { %sAddr IpAddress, %sUp TimeTicks }' % (n.capitalize(), n, n)),
        L('decl', '%sAddr OBJECT-TYPE' % n),
        L('code', '    SYNTAX IpAddress'),
        L('code', '    ACCESS read-only'),
        L('code', '    STATUS mandatory'),
        L('code', '    ::= { %sRowEntry 1 }' % n),
        L('decl', '%sUp OBJECT-TYPE' % n),
        L('code', '    SYNTAX TimeTicks'),
        L('code', '    ACCESS read-only'),
        L('code', '    STATUS mandatory'),
        L('code', '    ::= { %sRowEntry 2 }' % n),
        L('blank', ''),
        L('decl', '%sTrap TRAP-TYPE' % n),
        L('code', '    ENTERPRISE %s' % n),
        L('code', '    VARIABLES { %sCount }' % n),
        L('code', '    DESCRIPTION "a trap"'),
        L('code', '    ::= 7'),
        L('blank', ''),
        L('end', 'END'),
    ]


def module_small(name, arc, nobj=2, comment=True):
    n = name.split('-')[0].lower()
    ls = [L('head', '%s DEFINITIONS ::= BEGIN' % name),
          L('decl', 'IMPORTS OBJECT-TYPE, Integer32, enterprises FROM SNMPv2-SMI;'),
          L('decl', '%sRoot OBJECT IDENTIFIER ::= { enterprises %d }' % (n, arc))]
    for i in range(nobj):
        if comment:
            ls.append(L('comment', '-- object %d' % i))
        ls += [L('decl', '%sObj%d OBJECT-TYPE' % (n, i)),
               L('code', '    SYNTAX Integer32 (0..%d)' % (10 ** (i + 1))),
               L('code', '    MAX-ACCESS read-only'),
               L('code', '    STATUS current'),
               L('code', '    DESCRIPTION "object %d,\x0c'),
               L('str', '        described on two lines"'),
               L('code', '    ::= { %sRoot %d }' % (n, i + 1))]
    ls.append(L('end', 'END'))
    return ls


class MibFile(object):
    """A file assembled from tagged lines; offers the ground truth."""

    def __init__(self, modules, eol='\n', between=None, trailer=None, name='', header=None):
        self.name = name
        self.eol = eol
        lines = list(header or [])      # blank / comment lines before the first module
        self.mod_lines = []     # (first line idx, last line idx) 0-based, per module (head .. end)
        for i, m in enumerate(modules):
            if i and between:
                lines.extend(between)
            start = len(lines) + next(j for j, (k, t) in enumerate(m) if k == 'head')
            lines.extend(m)
            end = len(lines) - 1
            self.mod_lines.append((start, end))
        if trailer:
            lines.extend(trailer)
        self.lines = lines
        self.text = eol.join(t for k, t in lines) + eol
        # char offset of each line start
        self.offs = []
        o = 0
        for k, t in lines:
            self.offs.append(o)
            o += len(t) + len(eol)
        # module spans in characters: [start of module name, end of END)
        self.spans = []
        for (a, b) in self.mod_lines:
            ka, ta = lines[a]
            s = self.offs[a] + (len(ta) - len(ta.lstrip()))
            kb, tb = lines[b]
            e = self.offs[b] + tb.index('END') + 3
            self.spans.append((s, e))
        self.nlines = len(lines)

    def inside_module(self, k):
        """True if a text cut at character k ends inside a module."""
        for (s, e) in self.spans:
            if s < k < e:
                return True
        return False

    def modules_before(self, k):
        return sum(1 for (s, e) in self.spans if e <= k)

    def decl_lines(self):
        """1-based line numbers on which a top-level declaration (or END) starts."""
        out = []
        for i, (k, t) in enumerate(self.lines):
            if k in ('decl',) or (k == 'end' and any(b == i for (a, b) in self.mod_lines)):
                out.append(i + 1)
        return out

    def comment_chars(self):
        """character offsets strictly inside comment text (after the leading --)."""
        out = []
        for i, (k, t) in enumerate(self.lines):
            if k == 'comment':
                j = t.index('--') + 2
                out.extend(range(self.offs[i] + j, self.offs[i] + len(t)))
        return out

    def indent_chars(self):
        """offsets of the first character of indented plain code lines (a space outside any string)."""
        return [self.offs[i] for i, (k, t) in enumerate(self.lines) if k == 'code' and t.startswith(' ')]


def corpus(tier='quick'):
    files = [
        MibFile([module_small('AAA-MIB', 11, 1)], name='small1'),
        MibFile([module_small('AAA-MIB', 11, 2), module_small('BBB-MIB', 12, 1)], between=[L('blank', ''), L('comment', '-- between modules')], name='two-modules',
                header=[L('blank', ''), L('blank', '  '), L('comment', '-- covers 100% of the agent (draft %d)'), L('blank', '')]),
        MibFile([module_full('FULL-MIB', 4242)], name='full'),
        MibFile([module_v1('OLD-MIB', 4343)], name='smiv1'),
        MibFile([module_small('CCC-MIB', 13, 1)], eol='\r\n', trailer=[L('comment', '-- trailing comment after the last module'), L('blank', '')], name='crlf-trailer'),
        MibFile([module_v1('OLD-MIB', 4343), module_small('DDD-MIB', 14, 1, comment=False)], name='v1-then-v2'),
        MibFile([module_small('FFF-MIB', 16, 2)], eol='\r', name='cr-only'),
    ]
    if tier == 'thorough':
        files += [
            MibFile([module_full('FULL-MIB', 4242), module_v1('OLD-MIB', 4343), module_small('EEE-MIB', 15, 3)], between=[L('blank', '')], name='three'),
            MibFile([module_full('GGG-MIB', 77)], eol='\r\n', name='full-crlf'),
        ]
    return files


def text_of(lines, eol='\n'):
    return eol.join(t for k, t in lines) + eol


def module_full_alt(name='FULL-MIB', arc=4242):
    """Same module name and many of the same symbol names as module_full(), but what is a table, row or column
    there is a plain scalar here (and the other way round for one symbol): exposes per-module scratch state
    (rows, columns, seen symbols, compliance/identity OIDs) that survives from one module to the next."""
    n = name.split('-')[0].lower()
    ls = [L('head', '%s DEFINITIONS ::= BEGIN' % name),
          L('decl', 'IMPORTS OBJECT-TYPE, Integer32, Unsigned32, enterprises FROM SNMPv2-SMI;'),
          L('decl', '%sMIB OBJECT IDENTIFIER ::= { enterprises %d }' % (n, arc)),
          L('decl', '%sObjects OBJECT IDENTIFIER ::= { %sMIB 1 }' % (n, n))]
    for i, sym_ in enumerate(['Table', 'Entry', 'Index', 'Label', 'Status', 'Scalar']):
        ls += [L('decl', '%s%s OBJECT-TYPE' % (n, sym_)),
               L('code', '    SYNTAX Integer32'),
               L('code', '    MAX-ACCESS read-only'),
               L('code', '    STATUS current'),
               L('code', '    DESCRIPTION "plain scalar %d"' % i),
               L('code', '    ::= { %sObjects %d }' % (n, 20 + i))]
    # what was a scalar ("Big") is a table here
    ls += [L('decl', '%sBig OBJECT-TYPE' % n), L('code', '    SYNTAX SEQUENCE OF %sBigEntry' % n.capitalize()), L('code', '    MAX-ACCESS not-accessible'),
           L('code', '    STATUS current'), L('code', '    DESCRIPTION "now a table"'), L('code', '    ::= { %sObjects 40 }' % n),
           L('decl', '%sBigEntry OBJECT-TYPE' % n), L('code', '    SYNTAX %sBigEntry' % n.capitalize()), L('code', '    MAX-ACCESS not-accessible'),
           L('code', '    STATUS current'), L('code', '    DESCRIPTION "row"'), L('code', '    INDEX { %sBigIdx }' % n), L('code', '    ::= { %sBig 1 }' % n),
           L('decl', '%sBigEntry ::= SEQUENCE { %sBigIdx Unsigned32 }' % (n.capitalize(), n)),
           L('decl', '%sBigIdx OBJECT-TYPE' % n), L('code', '    SYNTAX Unsigned32'), L('code', '    MAX-ACCESS not-accessible'),
           L('code', '    STATUS current'), L('code', '    DESCRIPTION "idx"'), L('code', '    ::= { %sBigEntry 1 }' % n),
           L('end', 'END')]
    return ls


def module_quirky(name='QUIRK-MIB', arc=4545):
    """Sloppy but accepted constructs: objects listed twice, symbols imported twice, the same module in two import
    clauses, repeated enumeration of groups -- the rarely taken de-duplication paths."""
    n = name.split('-')[0].lower()
    ls = [L('head', '%s DEFINITIONS ::= BEGIN' % name),
          L('decl', 'IMPORTS'),
          L('code', '    MODULE-IDENTITY, OBJECT-TYPE, NOTIFICATION-TYPE, Integer32, enterprises, OBJECT-TYPE, Integer32 FROM SNMPv2-SMI'),
          L('code', '    MODULE-COMPLIANCE, OBJECT-GROUP, NOTIFICATION-GROUP FROM SNMPv2-CONF'),
          L('code', '    Counter32, Gauge32, Counter32 FROM SNMPv2-SMI'),
          L('code', '    DisplayString, TruthValue, DisplayString FROM SNMPv2-TC;'),
          L('decl', '%sMIB MODULE-IDENTITY' % n), L('code', '    LAST-UPDATED "202001010000Z"'), L('code', '    ORGANIZATION "o"'), L('code', '    CONTACT-INFO "c"'),
          L('code', '    DESCRIPTION "d"'), L('code', '    REVISION "202001010000Z"'), L('code', '    DESCRIPTION "r"'), L('code', '    ::= { enterprises %d }' % arc)]
    objs = []
    for i, nm in enumerate(['zeta', 'alpha', 'mid', 'beta', 'omega', 'gamma']):
        o = '%s%s' % (n, nm.capitalize())
        objs.append(o)
        ls += [L('decl', '%s OBJECT-TYPE' % o), L('code', '    SYNTAX %s' % ['Integer32', 'Counter32', 'Gauge32', 'DisplayString', 'TruthValue', 'Integer32'][i]),
               L('code', '    MAX-ACCESS read-only'), L('code', '    STATUS current'), L('code', '    DESCRIPTION "o"'), L('code', '    ::= { %sMIB %d }' % (n, i + 1))]
    dup = objs + [objs[2], objs[0], objs[4]]
    ls += [L('decl', '%sEvent NOTIFICATION-TYPE' % n), L('code', '    OBJECTS { %s }' % ', '.join(dup)), L('code', '    STATUS current'), L('code', '    DESCRIPTION "n"'),
           L('code', '    ::= { %sMIB 20 }' % n),
           L('decl', '%sEvent2 NOTIFICATION-TYPE' % n), L('code', '    OBJECTS { %s }' % ', '.join(objs[:2])), L('code', '    STATUS current'), L('code', '    DESCRIPTION "n"'),
           L('code', '    ::= { %sMIB 21 }' % n),
           L('decl', '%sGroup OBJECT-GROUP' % n), L('code', '    OBJECTS { %s }' % ', '.join(dup[::-1])), L('code', '    STATUS current'), L('code', '    DESCRIPTION "g"'),
           L('code', '    ::= { %sMIB 30 }' % n),
           L('decl', '%sNGroup NOTIFICATION-GROUP' % n), L('code', '    NOTIFICATIONS { %sEvent, %sEvent2, %sEvent }' % (n, n, n)), L('code', '    STATUS current'), L('code', '    DESCRIPTION "g"'),
           L('code', '    ::= { %sMIB 31 }' % n),
           L('decl', '%sCompl MODULE-COMPLIANCE' % n), L('code', '    STATUS current'), L('code', '    DESCRIPTION "c"'), L('code', '    MODULE'),
           L('code', '        MANDATORY-GROUPS { %sGroup, %sNGroup, %sGroup }' % (n, n, n)), L('code', '    ::= { %sMIB 40 }' % n),
           L('end', 'END')]
    return ls


CORPUS_MODULES = {
    'quirky': lambda: ('QUIRK-MIB', text_of(module_quirky('QUIRK-MIB', 4545))),
    'full': lambda: ('FULL-MIB', text_of(module_full('FULL-MIB', 4242))),
    'fullalt': lambda: ('FULL-MIB', text_of(module_full_alt('FULL-MIB', 4242))),
    'v1': lambda: ('OLD-MIB', text_of(module_v1('OLD-MIB', 4343))),
    'small': lambda: ('AAA-MIB', text_of(module_small('AAA-MIB', 11, 2))),
}
