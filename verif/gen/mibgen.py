"""Generator of small MIB module sets with ground truth.

A module spec is a JSON-able dict:
  name       module name, e.g. 'AAA-MIB'
  imports    list of module names it imports a root node from
  oidparent  one of `imports` (the module's OID sub-tree hangs off that
             module's root) or None (hangs off `enterprises`)
  arc        the module's arc under its parent
  identity   True -> MODULE-IDENTITY, False -> plain OBJECT IDENTIFIER root
  revisions  list of 'YYYYMMDDHHMMZ' strings (only with identity)
  nobj       number of scalar objects under the root
  arcs       explicit arcs of those objects (len == nobj)
  compliance True -> a MODULE-COMPLIANCE statement is present
  variant    'ok' or a defect name (see VARIANTS)
  smiv1      True -> SMIv1 flavour (RFC1155-SMI / RFC-1212 imports)
  enumtc     True -> the module defines an enumerated type and a refinement of it
             (<Cap>EnumBase ::= INTEGER { alpha(1), beta(2), gamma(3) };
              <Cap>EnumSub ::= <Cap>EnumBase { alpha(1) }), declared after the objects
  enumuse    name of an imported module with `enumtc` (or the module itself): an object
             of the refined type with DEFVAL { alpha } under arc 61
The OID-parent relation is kept acyclic by the set generator even when the
import graph has cycles.
"""
import re

from verif.gen import basemibs

ENTERPRISES = (1, 3, 6, 1, 4, 1)

# defect -> stage in which it is expected to surface
VARIANTS = {
    'ok': None,
    'lex': 'parser',          # illegal character
    'syntax': 'parser',       # '::=' dropped
    'forbidden': 'parser',    # forbidden ASN.1 keyword
    'cut': 'parser',          # text ends inside the module
    'cutmacro': 'parser',     # text ends inside a MACRO body
    'empty': 'parser',        # no module at all in the file
    'dupsym': 'symtab',       # duplicate symbol
    'dupsymfwd': 'symtab',    # duplicate symbol whose first definition is still waiting for a type declared further down
    'unkparent': 'symtab',    # OID parent neither defined nor imported
    'badref': 'codegen',      # parent imported from a module that does not define it
    'oidcycle': 'codegen',    # circular OID definition
    'oidtype': 'codegen',     # OID parent names a type
    'latefail': 'codegen',    # fails in the generator after most objects were registered (undefined bit in a DEFVAL)
    'lexpct': 'parser',       # illegal character that is also a format directive
    'augunk': 'symtab',       # a row listed before its table (legal) that AUGMENTS a row defined nowhere and not imported
}
DEFECTS = [v for v in VARIANTS if v != 'ok']


def sym(name):
    """'AAA-MIB' -> 'aaaMib' (lower camel identifier)."""
    parts = re.split(r'[^A-Za-z0-9]+', name)
    parts = [p for p in parts if p]
    out = parts[0].lower() + ''.join(p[:1].upper() + p[1:].lower() for p in parts[1:])
    if not out[0].isalpha():
        out = 'm' + out
    return out


def root_sym(name):
    return sym(name) + 'Root'


def module_oid(spec, allspecs, _seen=None):
    """Ground-truth OID (tuple) of the module root; None if it cannot be resolved."""
    _seen = _seen or set()
    if spec['name'] in _seen:
        return None
    _seen.add(spec['name'])
    if spec.get('oidparent'):
        p = allspecs.get(spec['oidparent'])
        if p is None:
            return None
        po = module_oid(p, allspecs, _seen)
        if po is None:
            return None
        return po + (spec['arc'],)
    return ENTERPRISES + (spec['arc'],)


def defined_oids(spec, allspecs):
    """All OIDs a healthy rendering of the module defines (tuples)."""
    r = module_oid(spec, allspecs)
    if r is None:
        return []
    out = [r]
    if spec.get('own_ent') and not spec.get('smiv1') and spec.get('variant', 'ok') != 'badref':
        out += [(1, 3, 6, 1), (1, 3, 6, 1, 4), (1, 3, 6, 1, 4, 1)]
    for a in spec.get('arcs', []):
        out.append(r + (a,))
    for i, d in enumerate(spec.get('imports', [])):
        if d == spec.get('oidparent') or d == spec['name'] or d not in allspecs:
            continue
        dr = module_oid(allspecs[d], allspecs)
        if dr is not None:
            out.append(dr + (7000 + spec['arc'] % 1000,))
    if spec.get('foreign_ent'):
        out.append(ENTERPRISES + (spec['foreign_ent'],))
    if spec.get('zero_arc'):
        out.append(r + (0,))
        out.append(r + (0, 7))
    if spec.get('oiddefval') and not spec.get('smiv1'):
        out.append(r + (60,))
    if enum_source(spec, allspecs):
        out.append(r + (61,))
    if spec.get('compliance') and not spec.get('smiv1'):
        out.append(r + (9999,))
        if spec.get('arcs'):
            out.append(r + (9998,))
    return out


def cap(name):
    s = sym(name)
    return s[:1].upper() + s[1:]


def enum_source(spec, allspecs):
    """module whose refined enumeration this module's extra object uses, or None"""
    d = spec.get('enumuse')
    if not d or spec.get('smiv1'):
        return None
    if d == spec['name']:
        return d if spec.get('enumtc') else None
    if allspecs and d in spec.get('imports', []) and d in allspecs and allspecs[d].get('enumtc') and not allspecs[d].get('smiv1'):
        return d
    return None


def dotted(t):
    return '.'.join(str(x) for x in t)


def render(spec, allspecs=None):
    """-> ASN.1 text of one module (with its defect, if any)."""
    name = spec['name']
    v = spec.get('variant', 'ok')
    if v == 'augunk' and spec.get('smiv1'):
        v = 'unkparent'        # AUGMENTS is an SMIv2 clause
    if v == 'empty':
        return '-- nothing here but a comment\n\n'
    me = spec.get('rootname') or root_sym(name)      # 'rootname': the root node carries another name than importers expect (a later release renamed it)
    lines = []
    imps = list(spec.get('imports', []))
    smi_syms = ['OBJECT-TYPE', 'enterprises', 'Integer32']
    own_ent = bool(spec.get('own_ent')) and not spec.get('smiv1') and v not in ('badref',)
    if own_ent:
        smi_syms.remove('enterprises')        # the module spells out the path down to `enterprises` itself (old vendor SMI style)
    if spec.get('identity'):
        smi_syms.insert(0, 'MODULE-IDENTITY')
    if spec.get('smiv1'):
        lines.append('%s DEFINITIONS ::= BEGIN' % name)
        lines.append('IMPORTS')
        lines.append('    enterprises, Counter FROM RFC1155-SMI')
        lines.append('    OBJECT-TYPE FROM RFC-1212')
    else:
        lines.append('%s DEFINITIONS ::= BEGIN' % name)
        lines.append('IMPORTS')
        if spec.get('dupobj'):
            smi_syms = smi_syms + ['OBJECT-TYPE', 'Integer32']                # the same symbol imported twice
        lines.append('    %s FROM SNMPv2-SMI' % ', '.join(smi_syms))
        if spec.get('compliance'):
            lines.append('    MODULE-COMPLIANCE, OBJECT-GROUP FROM SNMPv2-CONF')
    for d in imps:
        extra = ''
        if v == 'badref' and d == spec.get('oidparent'):
            extra = ', %sNoSuchNode' % sym(d)
        if d != name and enum_source(spec, allspecs) == d:
            extra += ', %sEnumSub' % cap(d)
        lines.append('    %s%s FROM %s' % (root_sym(d), extra, spec.get('spell', {}).get(d, d)))
    dd = spec.get('defval_dep')
    if dd and spec.get('oiddefval') and not spec.get('smiv1'):
        lines.append('    %s FROM %s' % (spec.get('defval_sym') or root_sym(dd), dd))
    if spec.get('shadow_dep') and not spec.get('smiv1'):
        lines.append('    DisplayString FROM %s' % spec['shadow_dep'])
        if spec.get('shadow_twice'):
            lines.append('    DisplayString FROM SNMPv2-TC')      # the same symbol listed under two modules of one clause
    lines[-1] += ';'
    lines.append('')
    parent = root_sym(spec['oidparent']) if spec.get('oidparent') else 'enterprises'
    if own_ent:
        lines += ['internet OBJECT IDENTIFIER ::= { iso org(3) dod(6) 1 }', 'private OBJECT IDENTIFIER ::= { internet 4 }',
                  'enterprises OBJECT IDENTIFIER ::= { private 1 }', '']
    if v == 'badref':
        if spec.get('oidparent'):
            parent = '%sNoSuchNode' % sym(spec['oidparent'])
        else:
            # no dependency to blame: import a non-existent node from SNMPv2-SMI instead
            lines.insert(3, '    noSuchNodeAtAll FROM SNMPv2-SMI')
            parent = 'noSuchNodeAtAll'
    if v == 'unkparent':
        parent = 'thisParentIsNowhere'
    if v == 'oidcycle':
        parent = me
    if v == 'oidtype':
        lines.append('%sKind ::= INTEGER (0..7)' % sym(name).capitalize())
        parent = None
    if spec.get('identity') and not spec.get('smiv1'):
        lines.append('%s MODULE-IDENTITY' % me)
        revs = spec.get('revisions') or []
        lines.append('    LAST-UPDATED "%s"' % (revs[0] if revs else '200001010000Z'))
        lines.append('    ORGANIZATION "org of %s"' % name)
        lines.append('    CONTACT-INFO "contact"')
        lines.append('    DESCRIPTION "module %s"' % name)
        for r in revs:
            lines.append('    REVISION "%s"' % r)
            lines.append('    DESCRIPTION "rev %s"' % r)
        if v == 'oidtype':
            lines.append('    ::= { %sKind %d }' % (sym(name).capitalize(), spec['arc']))
        else:
            lines.append('    ::= { %s %d }' % (parent, spec['arc']))
    else:
        if v == 'oidtype':
            lines.append('%s OBJECT IDENTIFIER ::= { %sKind %d }' % (me, sym(name).capitalize(), spec['arc']))
        else:
            lines.append('%s OBJECT IDENTIFIER ::= { %s %d }' % (me, parent, spec['arc']))
    lines.append('')
    # one anchor per non-parent import so that every imported root is really used
    for i, d in enumerate(imps):
        if d == spec.get('oidparent') or d == name:
            continue
        lines.append('%sAt%s OBJECT IDENTIFIER ::= { %s %d }' % (sym(name), sym(d).capitalize(), root_sym(d), 7000 + spec['arc'] % 1000))
    arcs = spec.get('arcs', [])
    objnames = []
    for i, a in enumerate(arcs):
        on = '%sObj%d' % (sym(name), i)
        objnames.append(on)
        lines.append('%s OBJECT-TYPE' % on)
        if spec.get('smiv1'):
            lines.append('    SYNTAX Counter')
            lines.append('    ACCESS read-only')
            lines.append('    STATUS mandatory')
        else:
            lines.append('    SYNTAX Integer32')
            lines.append('    MAX-ACCESS read-only')
            lines.append('    STATUS current')
        lines.append('    DESCRIPTION "object %d of %s"' % (i, name))
        if v == 'syntax' and i == 0:
            lines.append('    { %s %d }' % (me, a))
        else:
            lines.append('    ::= { %s %d }' % (me, a))
        if v == 'lex' and i == 0:
            lines.append('@')
        if v == 'forbidden' and i == 0:
            lines.append('%sBad OBJECT IDENTIFIER ::= { FALSE 1 }' % sym(name))
        lines.append('')
    if spec.get('foreign_ent'):
        # a node under another vendor's enterprise number, declared after the module's own root (partner objects)
        lines += ['%sPartner OBJECT IDENTIFIER ::= { enterprises %d }' % (sym(name), spec['foreign_ent']), '']
    if spec.get('zero_arc'):
        # notifications conventionally hang off a zero arc
        lines += ['%sEvents OBJECT IDENTIFIER ::= { %s 0 }' % (sym(name), me), '%sEvent7 OBJECT IDENTIFIER ::= { %sEvents 7 }' % (sym(name), sym(name)), '']
    if spec.get('oiddefval') and not spec.get('smiv1'):
        tgt = root_sym(imps[0]) if imps and imps[0] != name else 'enterprises'
        if dd:
            # the default value is the only use of this import
            tgt = spec.get('defval_sym') or root_sym(dd)
        lines += ['%sOidObj OBJECT-TYPE' % sym(name), '    SYNTAX OBJECT IDENTIFIER', '    MAX-ACCESS read-write', '    STATUS current',
                  '    DESCRIPTION "an OID-valued object whose default names an imported node"', '    DEFVAL { %s }' % tgt, '    ::= { %s 60 }' % me, '']
    es = enum_source(spec, allspecs)
    if es:
        lines += ['%sEnumObj OBJECT-TYPE' % sym(name), '    SYNTAX %sEnumSub' % cap(es), '    MAX-ACCESS read-write', '    STATUS current',
                  '    DESCRIPTION "object of a refined enumerated type with a default"', '    DEFVAL { alpha }', '    ::= { %s 61 }' % me, '']
    if spec.get('enumtc') and not spec.get('smiv1'):
        lines += ['%sEnumBase ::= INTEGER { alpha(1), beta(2), gamma(3) }' % cap(name), '%sEnumSub ::= %sEnumBase { alpha(1) }' % (cap(name), cap(name)), '']
    if spec.get('fakeidx'):
        t = sym(name)
        acc, st = ('ACCESS', 'mandatory') if spec.get('smiv1') else ('MAX-ACCESS', 'current')
        lines += ['%sTable OBJECT-TYPE SYNTAX SEQUENCE OF %sEntry %s not-accessible STATUS %s DESCRIPTION "t" ::= { %s 50 }' % (t, t.capitalize(), acc, st, me),
                  '%sEntry OBJECT-TYPE SYNTAX %sEntry %s not-accessible STATUS %s DESCRIPTION "e" INDEX { INTEGER } ::= { %sTable 1 }' % (t, t.capitalize(), acc, st, t),
                  '%sEntry ::= SEQUENCE { %sCol INTEGER }' % (t.capitalize(), t),
                  '%sCol OBJECT-TYPE SYNTAX INTEGER %s read-only STATUS %s DESCRIPTION "c" ::= { %sEntry 1 }' % (t, acc, st, t), '']
    if v == 'latefail':
        acc2 = 'ACCESS' if spec.get('smiv1') else 'MAX-ACCESS'
        lines += ['%sLate OBJECT-TYPE' % sym(name), '    SYNTAX BITS { first(0), second(1) }', '    %s read-write' % acc2,
                  '    STATUS %s' % ('mandatory' if spec.get('smiv1') else 'current'), '    DESCRIPTION "default names a bit that does not exist"',
                  '    DEFVAL { { nosuchbit } }', '    ::= { %s 70 }' % me, '']
    if v == 'lexpct':
        lines.append('% 100% wrong')
    if v == 'augunk':
        t_ = sym(name)
        lines += ['%sAugEntry OBJECT-TYPE' % t_, '    SYNTAX %sAugEntry' % cap(name), '    MAX-ACCESS not-accessible', '    STATUS current',
                  '    DESCRIPTION "a row that extends the rows of a table nobody defines"', '    AUGMENTS { %sNoSuchRowAnywhere }' % t_, '    ::= { %sAugTable 1 }' % t_, '',
                  '%sAugEntry ::= SEQUENCE { %sAugCol Integer32 }' % (cap(name), t_), '',
                  '%sAugTable OBJECT-TYPE' % t_, '    SYNTAX SEQUENCE OF %sAugEntry' % cap(name), '    MAX-ACCESS not-accessible', '    STATUS current', '    DESCRIPTION "the table"',
                  '    ::= { %s 90 }' % me, '',
                  '%sAugCol OBJECT-TYPE' % t_, '    SYNTAX Integer32', '    MAX-ACCESS read-only', '    STATUS current', '    DESCRIPTION "a column"', '    ::= { %sAugEntry 1 }' % t_, '']
    if v in ('syntax', 'lex', 'forbidden') and not arcs:
        lines.append({'syntax': '%sx OBJECT IDENTIFIER { %s 1 }' % (me, me), 'lex': '@', 'forbidden': 'x OBJECT IDENTIFIER ::= { FALSE 1 }'}[v])
    if v == 'dupsym':
        lines.append('%s OBJECT IDENTIFIER ::= { enterprises 424242 }' % me)
    if v == 'dupsymfwd':
        acc3, st3 = ('ACCESS', 'mandatory') if spec.get('smiv1') else ('MAX-ACCESS', 'current')
        for _k in range(2):
            lines += ['%sTwin OBJECT-TYPE' % sym(name), '    SYNTAX %sLaterType' % cap(name), '    %s read-only' % acc3, '    STATUS %s' % st3,
                      '    DESCRIPTION "defined twice; its type is declared further down"', '    ::= { %s 80 }' % me, '']
        lines += ['%sLaterType ::= INTEGER (0..7)' % cap(name), '']
    if spec.get('compliance') and not spec.get('smiv1'):
        grp = '%sGroup' % sym(name)
        if objnames:
            lines.append('%s OBJECT-GROUP' % grp)
            listed = list(objnames)
            if spec.get('dupobj'):
                listed = listed + listed[:1] + listed[-1:]     # sloppy but accepted: objects named more than once
            lines.append('    OBJECTS { %s }' % ', '.join(listed))
            lines.append('    STATUS current')
            lines.append('    DESCRIPTION "group"')
            lines.append('    ::= { %s 9998 }' % me)
        lines.append('%sCompliance MODULE-COMPLIANCE' % sym(name))
        lines.append('    STATUS current')
        lines.append('    DESCRIPTION "compliance"')
        lines.append('    MODULE')
        if objnames:
            lines.append('    MANDATORY-GROUPS { %s }' % grp)
        lines.append('    ::= { %s 9999 }' % me)
        lines.append('')
    if v == 'cutmacro':
        lines.append('%s-THING MACRO ::=' % sym(name).upper())
        lines.append('BEGIN')
        lines.append('    TYPE NOTATION ::= "x"')
        text = '\n'.join(lines) + '\n'
        return text
    lines.append('END')
    text = '\n'.join(lines) + '\n'
    if v == 'cut':
        # cut inside the module: drop the END and half of the last declaration
        body = text[:text.rindex('END')]
        cutat = max(len(body) * 2 // 3, body.index('BEGIN') + 6)
        return body[:cutat]
    return text


def render_file(names, specs):
    return '\n'.join(render(specs[n], specs) for n in names)


def base_text(name):
    return basemibs.BASE[name]


# --------------------------------------------------------------------------
# module-set generation
# --------------------------------------------------------------------------
NAME_POOL = ['AAA-MIB', 'BBB-MIB', 'CCC-MIB', 'DDD-MIB', 'EEE-MIB', 'FFF-MIB', 'GGG-MIB', 'HHH-MIB', 'III-MIB']
ARC_POOL = [1, 2, 4, 10, 48, 100, 4800, 99999]


def gen_modules(rng, n, cycles=True, defects=0.0, compliance=0.3, identity=0.7, smiv1=0.0, oiddefval=0.0, enumtc=0.0, shadow=0.0):
    """-> dict name -> spec.  Import graph: random, with back edges and self
    imports when `cycles`; OID parents only point to lower-ranked modules."""
    names = NAME_POOL[:n]
    specs = {}
    used_arcs = {}
    for i, name in enumerate(names):
        lower = names[:i]
        imports = []
        shape = rng.random()
        if lower:
            k = rng.choice([0, 1, 1, 1, 2, 3])
            imports = rng.sample(lower, min(k, len(lower)))
        oidparent = rng.choice(imports) if imports and rng.random() < 0.8 else None
        if cycles and rng.random() < 0.25:
            higher = names[i + 1:]
            if higher:
                imports.append(rng.choice(higher))
        if cycles and rng.random() < 0.08:
            imports.append(name)
        key = oidparent or ''
        arc = rng.choice([a for a in ARC_POOL if a not in used_arcs.get(key, ())] or [rng.randrange(200, 9000)])
        used_arcs.setdefault(key, set()).add(arc)
        nobj = rng.choice([0, 1, 2, 3])
        arcs = sorted(rng.sample([1, 2, 3, 4, 10, 11, 48], nobj))
        spec = {'name': name, 'imports': imports, 'oidparent': oidparent, 'arc': arc,
                'identity': rng.random() < identity, 'nobj': nobj, 'arcs': arcs,
                'compliance': rng.random() < compliance, 'variant': 'ok'}
        if spec['identity'] and rng.random() < 0.7:
            y = rng.choice([1999, 2005, 2010, 2020])
            revs = ['%04d%02d010000Z' % (y - j, rng.randrange(1, 13)) for j in range(rng.choice([1, 1, 2]))]
            spec['revisions'] = revs
        if rng.random() < smiv1:
            spec['smiv1'] = True
            spec['identity'] = False
            spec['compliance'] = False
        if rng.random() < oiddefval:
            spec['oiddefval'] = True
            r = rng.random()
            others = [x for x in lower if x not in imports]
            if r < 0.35:
                spec['defval_dep'] = 'GONE-MIB'           # a module nobody has
            elif r < 0.7 and others:
                spec['defval_dep'] = rng.choice(others)
                if rng.random() < 0.4:
                    spec['defval_sym'] = sym(spec['defval_dep']) + 'NoSuchNode'
        if rng.random() < 0.12:
            spec['foreign_ent'] = rng.choice([100000, 9, 99990, 1000001])
        if rng.random() < 0.12:
            spec['zero_arc'] = True
        if rng.random() < 0.08:
            spec['own_ent'] = True
        if shadow and rng.random() < shadow and not spec.get('smiv1'):
            # the only symbol taken from this module carries the name of a textual convention that every module also
            # gets from SNMPv2-TC: the module is named in IMPORTS all the same
            others = [x for x in lower if x not in imports]
            spec['shadow_dep'] = rng.choice(others) if others and rng.random() < 0.5 else 'LOST-MIB'
            if rng.random() < 0.5:
                spec['shadow_twice'] = True
        if enumtc and rng.random() < enumtc:
            spec['enumtc'] = True
            if rng.random() < 0.3:
                spec['enumuse'] = name
        if enumtc:
            cands = [d for d in imports if d in specs and specs[d].get('enumtc') and not specs[d].get('smiv1')]
            if cands and rng.random() < 0.7:
                spec['enumuse'] = rng.choice(cands)
        if rng.random() < defects:
            spec['variant'] = rng.choice(DEFECTS)
        specs[name] = spec
    return specs


def import_closure(requested, specs, parsed_ok):
    """Ground-truth closure of requested names over modules that parse."""
    seen = []
    todo = list(requested)
    while todo:
        n = todo.pop(0)
        if n in seen:
            continue
        seen.append(n)
        if n in specs and parsed_ok(n):
            todo.extend(specs[n].get('imports', []))
            todo.extend(basemibs.BASE_NAMES)
    return seen


def declared_imports(spec):
    """Module names the rendered text imports from (as spelled), incl. base modules -- ground truth for closure checks.
    Only for variants whose text still carries the whole IMPORTS clause."""
    out = []
    if spec.get('smiv1'):
        out += ['RFC1155-SMI', 'RFC-1212']
    else:
        out.append('SNMPv2-SMI')
        if spec.get('compliance'):
            out.append('SNMPv2-CONF')
    for d in spec.get('imports', []):
        out.append(spec.get('spell', {}).get(d, d))
    if spec.get('defval_dep') and spec.get('oiddefval') and not spec.get('smiv1'):
        out.append(spec['defval_dep'])
    if spec.get('shadow_dep') and not spec.get('smiv1'):
        out.append(spec['shadow_dep'])
        if spec.get('shadow_twice'):
            out.append('SNMPv2-TC')
    return out
