"""Deterministic simulation with fault injection for etingof/pysmi.

Importing this package prepares the process: /repo goes first on sys.path,
the time zone is pinned to UTC, and the interposition layer is installed
*before* pysmi is imported (see sim/core.py).
"""
import os
import sys
import time

REPO = os.environ.get('VERIF_REPO', '/repo')
VERIF_DIR = os.path.dirname(os.path.dirname(os.path.abspath(__file__)))

if REPO not in sys.path[:1]:
    sys.path.insert(0, REPO)
for _extra in (os.path.join(REPO, 'scripts'),):
    pass

os.environ['TZ'] = 'UTC'
time.tzset()
sys.dont_write_bytecode = True

from verif.sim import core as _core  # noqa: E402

_core.install()


def assert_repo():
    import pysmi
    here = os.path.realpath(os.path.dirname(pysmi.__file__))
    want = os.path.realpath(os.path.join(REPO, 'pysmi'))
    if here != want:
        raise RuntimeError('pysmi imported from %s, expected %s' % (here, want))
