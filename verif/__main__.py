"""Entry point:  python -B -m verif check <ID> --tier quick|thorough
                    python -B -m verif replay <file>
                    python -B -m verif fp <ID> --tier T --seed S --n N   (internal)
"""
import argparse
import json
import os
import sys


def _reexec_if_needed():
    if os.environ.get('VERIF_NO_REEXEC'):
        return
    if os.environ.get('PYTHONHASHSEED') != '0':
        env = dict(os.environ)
        env['PYTHONHASHSEED'] = '0'
        env['VERIF_NO_REEXEC'] = '1'
        os.execve(sys.executable, [sys.executable, '-B', '-m', 'verif'] + sys.argv[1:], env)


def main():
    ap = argparse.ArgumentParser(prog='verif')
    sub = ap.add_subparsers(dest='cmd', required=True)
    c = sub.add_parser('check')
    c.add_argument('prop')
    c.add_argument('--tier', default=os.environ.get('VERIF_TIER', 'quick'), choices=['quick', 'thorough'])
    c.add_argument('--seed', type=int, default=None)
    c.add_argument('--budget', type=float, default=None)
    r = sub.add_parser('replay')
    r.add_argument('path')
    f = sub.add_parser('fp')
    f.add_argument('prop')
    f.add_argument('--tier', default='quick')
    f.add_argument('--seed', type=int, default=0)
    f.add_argument('--n', type=int, default=10)
    e = sub.add_parser('envworlds')      # internal: a sample of worlds in this interpreter's process environment
    e.add_argument('prop')
    e.add_argument('--tier', default='quick')
    e.add_argument('--seed', type=int, default=0)
    e.add_argument('--n', type=int, default=300)
    args = ap.parse_args()

    if args.cmd in ('check', 'replay'):
        _reexec_if_needed()

    import verif  # noqa: installs interposition, puts /repo on sys.path
    from verif import runner

    if args.cmd == 'fp':
        res = runner.fingerprints_for(args.prop.upper(), args.tier, args.seed, args.n)
        print('FP ' + json.dumps(res))
        from verif.sim import core
        core.drop_process_scratch()
        return 0
    if args.cmd == 'envworlds':
        res = runner.env_worlds(args.prop.upper(), args.tier, args.seed, args.n)
        print('ENVRES ' + json.dumps(res, default=str))
        from verif.sim import core
        core.drop_process_scratch()
        return 0
    if args.cmd == 'replay':
        rc = runner.replay(args.path)
        from verif.sim import core
        core.drop_process_scratch()
        return rc
    seed = args.seed
    if seed is None:
        try:
            seed = int(os.environ.get('VERIF_SEED', '20260923'))
        except ValueError:
            seed = 20260923
    return runner.check(args.prop.upper(), args.tier, seed, args.budget)


if __name__ == '__main__':
    sys.exit(main())
