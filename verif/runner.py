"""Generic driver: determinism self-check, sweeps, seeded worlds on a fork
pool, minimisation, replay files, known findings, evidence, exit codes.

Exit codes: 0 property held (possibly KNOWN-FINDING lines), 1 VIOLATION,
2 harness error (never 0 when anything went wrong in the machinery).
"""
import concurrent.futures as cf
import faulthandler
import hashlib
import importlib
import json
import multiprocessing
import os
import random
import signal
import subprocess
import sys
import time
import traceback

from verif import VERIF_DIR
from verif.sim import core

REAL_MONO = core.R.monotonic

TIERS = ('quick', 'thorough')
# evidence and replay files go to /verif unless a sensitivity run (tools/eval_seeded.py) redirects them
OUT_DIR = os.environ.get('VERIF_OUT') or VERIF_DIR
WORKERS = int(os.environ.get('VERIF_WORKERS', '0')) or min(16, os.cpu_count() or 1)


def H(*parts):
    h = hashlib.sha256('|'.join(str(p) for p in parts).encode()).digest()
    return int.from_bytes(h[:8], 'big')


def world_seed(seed, prop, tier, index):
    return H(seed, prop, tier, index)


def load_check(prop):
    return importlib.import_module('verif.checks.%s' % prop.lower())


# --------------------------------------------------------------------------
# running one scenario with a wall cap, classifying what comes out
# --------------------------------------------------------------------------
class _Alarm(object):
    def __init__(self, seconds):
        self.seconds = seconds

    def _fire(self, signum, frame):
        raise core.WorldTimeout('wall cap %ss' % self.seconds)

    def __enter__(self):
        self.old = signal.signal(signal.SIGALRM, self._fire)
        signal.setitimer(signal.ITIMER_REAL, self.seconds)

    def __exit__(self, *a):
        signal.setitimer(signal.ITIMER_REAL, 0)
        signal.signal(signal.SIGALRM, self.old)
        return False


DEBUG_FLAGS = ['searcher', 'reader', 'parser', 'codegen', 'writer', 'compiler', 'borrower']


def run_one(mod, scn, cap=None):
    """-> outcome dict; never raises (harness errors are recorded)."""
    if scn.get('debug'):
        # pysmi's diagnostic logging is a configuration like any other: results must not depend on it
        from pysmi import debug as pdebug
        pdebug.setLogger(pdebug.Debug(*DEBUG_FLAGS, **{'loggerName': 'pysmi.sim'}))
        try:
            out = _run_one(mod, scn, cap)
        finally:
            pdebug.setLogger(0)
        out.setdefault('probes', {})['pysmi-debug-logging-on'] = 1
        if out.get('sig'):
            out['sig'] = out['sig'] + '|debug'
        return out
    return _run_one(mod, scn, cap)


def _run_one(mod, scn, cap=None):
    cap = cap or getattr(mod, 'WORLD_CAP_S', 60)
    try:
        try:
            with _Alarm(cap):
                out = mod.run(scn)
        except core.WorldTimeout:
            # a loaded machine must not turn into a verdict: run the world once more with a much larger cap
            core._state.world = None
            core._tls.depth = 0
            with _Alarm(cap * 4):
                out = mod.run(scn)
            out.setdefault('probes', {})['slow-world-needed-retry'] = 1
    except core.WorldTimeout as e:
        core._state.world = None
        core._tls.depth = 0
        if getattr(mod, 'HANG_IS_VIOLATION', False):
            out = {'violations': [{'clause': '%s.terminates' % mod.PROPERTY, 'key': '%s.terminates' % mod.PROPERTY,
                                   'facts': {'hang': True}, 'message': str(e)}]}
        else:
            out = {'violations': [], 'harness_error': 'world hang: %s\n%s' % (e, traceback.format_exc())}
    except BaseException as e:  # noqa
        core._state.world = None
        core._tls.depth = 0
        if isinstance(e, KeyboardInterrupt):
            raise
        out = {'violations': [], 'harness_error': 'harness exception %s: %s\n%s' % (type(e).__name__, e, traceback.format_exc())}
    out.setdefault('violations', [])
    out.setdefault('sig', '')
    out.setdefault('nontrivial', False)
    out.setdefault('events', 0)
    out.setdefault('sim_s', 0)
    out.setdefault('fired', {})
    out.setdefault('probes', {})
    out.setdefault('fp', '')
    out.setdefault('fph', '')
    out.setdefault('comps', {})
    return out


class Agg(object):
    """Aggregated statistics of many worlds (mergeable)."""

    def __init__(self):
        self.worlds = 0
        self.units = 0
        self.events = 0
        self.sim_s = 0
        self.fired = {}
        self.probes = {}
        self.comps = {}
        self.sigs = set()
        self.nontrivial_sigs = set()
        self.schedules = set()
        self.violations = []
        self.harness_errors = []
        self.samples = []
        self.tainted = 0
        self.faulted_worlds = 0

    def add(self, scn, out, mod, keep_sample=False):
        self.worlds += 1
        self.units += out.get('units', 1)
        self.events += out['events']
        self.sim_s += out['sim_s']
        for k, v in out['fired'].items():
            self.fired[k] = self.fired.get(k, 0) + v
        if out['fired']:
            self.faulted_worlds += 1
        for k, v in out['probes'].items():
            self.probes[k] = self.probes.get(k, 0) + v
        for k, v in out['comps'].items():
            self.comps[k] = self.comps.get(k, 0) + v
        for one in (out.get('sigs') or [out['sig']]):
            s = hashlib.sha1(one.encode()).hexdigest()[:16] if one else ''
            if s:
                self.sigs.add(s)
                if out['nontrivial']:
                    self.nontrivial_sigs.add(s)
        if out.get('schedule_sig'):
            self.schedules.add(out['schedule_sig'])
        if out.get('tainted'):
            self.tainted += 1
        for v in out['violations']:
            if len(self.violations) < 200:
                self.violations.append({'scenario': scn, 'violation': v})
        if out.get('harness_error'):
            if len(self.harness_errors) < 20:
                self.harness_errors.append(out['harness_error'])
        if keep_sample and len(self.samples) < 4:
            try:
                self.samples.append(mod.describe(scn, out))
            except Exception:
                self.samples.append({'scenario': scn})

    def merge(self, o):
        self.worlds += o.worlds
        self.units += o.units
        self.events += o.events
        self.sim_s += o.sim_s
        for src, dst in ((o.fired, self.fired), (o.probes, self.probes), (o.comps, self.comps)):
            for k, v in src.items():
                dst[k] = dst.get(k, 0) + v
        self.sigs |= o.sigs
        self.nontrivial_sigs |= o.nontrivial_sigs
        self.schedules |= o.schedules
        self.violations.extend(o.violations[:max(0, 400 - len(self.violations))])
        self.harness_errors.extend(o.harness_errors[:max(0, 20 - len(self.harness_errors))])
        self.tainted += o.tainted
        self.faulted_worlds += o.faulted_worlds
        for s in o.samples:
            if len(self.samples) < 6:
                self.samples.append(s)


# --------------------------------------------------------------------------
# pool workers
# --------------------------------------------------------------------------
_worker_mod = {}


def _worker_init():
    faulthandler.enable()
    signal.signal(signal.SIGINT, signal.SIG_IGN)
    core._state.world = None


def _chunk_seeded(prop, tier, seed, lo, hi):
    mod = load_check(prop)
    agg = Agg()
    for i in range(lo, hi):
        ws = world_seed(seed, prop, tier, i)
        try:
            scn = mod.generate(random.Random(ws), tier)
            scn['_world'] = {'index': i, 'world_seed': str(ws)}
            if random.Random(H(ws, 'debug')).random() < 0.07:
                scn['debug'] = True
        except Exception as e:
            agg.harness_errors.append('generate failed index %d: %s\n%s' % (i, e, traceback.format_exc()))
            continue
        out = run_one(mod, scn)
        agg.add(scn, out, mod, keep_sample=(i - lo) < 1 and lo % 7 == 0)
    return agg


def _chunk_explicit(prop, scns):
    mod = load_check(prop)
    agg = Agg()
    for j, scn in enumerate(scns):
        out = run_one(mod, scn)
        agg.add(scn, out, mod, keep_sample=j == 0)
    return agg


def make_pool():
    ctx = multiprocessing.get_context('fork')
    return cf.ProcessPoolExecutor(max_workers=WORKERS, mp_context=ctx, initializer=_worker_init)


# --------------------------------------------------------------------------
# determinism self-check
# --------------------------------------------------------------------------
def fingerprints_for(prop, tier, seed, n, start=0):
    mod = load_check(prop)
    res = []
    for i in range(start, start + n):
        ws = world_seed(seed, prop, tier, i)
        scn = mod.generate(random.Random(ws), tier)
        if random.Random(H(ws, 'debug')).random() < 0.07:
            scn['debug'] = True
        out = run_one(mod, scn)
        res.append([out['fp'], out['fph'], bool(out.get('harness_error'))])
    return res


def selfcheck(prop, tier, seed, n):
    """-> dict(seeds_checked, reruns, hashseeds, mismatches, details).  A mismatch must show twice to count: the
    comparison is repeated once, so that a transient (an overloaded machine hitting a wall cap mid-world) is not
    reported as non-determinism of the harness."""
    r = _selfcheck_once(prop, tier, seed, n)
    if r['mismatches']:
        r2 = _selfcheck_once(prop, tier, seed, n)
        r2['first_attempt_details'] = r['details']
        if not r2['mismatches']:
            r2['transient_mismatch_not_reproduced'] = True
        return r2
    return r


def _selfcheck_once(prop, tier, seed, n):
    a = fingerprints_for(prop, tier, seed, n)
    b = fingerprints_for(prop, tier, seed, n)
    mism = []
    for i, (x, y) in enumerate(zip(a, b)):
        if x[0] != y[0] or x[1] != y[1]:
            mism.append('same-process rerun differs at world %d' % i)
    hashseeds = ['0']
    other = str(1 + (H(seed, 'hs') % 4000))
    env = dict(os.environ)
    env['PYTHONHASHSEED'] = other
    env['VERIF_NO_REEXEC'] = '1'
    cmd = [sys.executable, '-B', '-m', 'verif', 'fp', prop, '--tier', tier, '--seed', str(seed), '--n', str(n)]
    try:
        p = subprocess.run(cmd, cwd=VERIF_DIR, env=env, capture_output=True, text=True, timeout=600)
        line = [l for l in p.stdout.splitlines() if l.startswith('FP ')]
        if p.returncode != 0 or not line:
            mism.append('child interpreter failed: rc=%s %s' % (p.returncode, p.stderr[-2000:]))
        else:
            c = json.loads(line[-1][3:])
            hashseeds.append(other)
            for i, (x, y) in enumerate(zip(a, c)):
                if x[1] != y[1]:
                    mism.append('fresh interpreter (PYTHONHASHSEED=%s) harness fingerprint differs at world %d' % (other, i))
    except subprocess.TimeoutExpired:
        mism.append('child interpreter timed out')
    return {'seeds_checked': n, 'reruns': 2, 'hashseeds': hashseeds, 'mismatches': len(mism), 'details': mism[:10]}


# --------------------------------------------------------------------------
# process-environment variants: the same worlds in a child interpreter started with another locale set-up
# --------------------------------------------------------------------------
ENV_VARIANTS = {
    # the POSIX locale with Python's UTF-8 mode and locale coercion switched off: text-mode files default to ASCII
    'locale-C-ascii': {'LC_ALL': 'C', 'LANG': 'C', 'PYTHONUTF8': '0', 'PYTHONCOERCECLOCALE': '0', 'PYTHONIOENCODING': 'utf-8'},
}


def env_worlds(prop, tier, seed, n):
    """(child side) run the check's sweep (if it is small) or its first n seeded worlds; -> violations and counts"""
    import locale
    mod = load_check(prop)
    core.begin_run() if not os.environ.get('VERIF_SCRATCH_RUN') else None
    scns = []
    if hasattr(mod, 'sweep') and getattr(mod, 'ENV_SWEEP', False):
        scns = list(mod.sweep(tier))
    for i in range(n):
        ws = world_seed(seed, prop, tier, i)
        scn = mod.generate(random.Random(ws), tier)
        scn['_world'] = {'index': i, 'world_seed': str(ws)}
        scns.append(scn)
    viol, herr, fired = [], [], {}
    for scn in scns:
        out = run_one(mod, scn)
        for k, v in out['fired'].items():
            fired[k] = fired.get(k, 0) + v
        for v in out['violations']:
            if len(viol) < 40:
                viol.append({'scenario': scn, 'violation': v, 'fp': out['fp']})
        if out.get('harness_error') and len(herr) < 3:
            herr.append(out['harness_error'][:500])
    return {'worlds': len(scns), 'violations': viol, 'harness_errors': herr, 'encoding': locale.getpreferredencoding(False), 'fired': len(fired)}


def start_env_variants(prop, tier, seed, mod):
    """(parent side) start one child interpreter per environment variant; they run while the pool does the seeded worlds"""
    procs = []
    for name in getattr(mod, 'ENV_VARIANTS', ()):
        env = dict(os.environ)
        env.update(ENV_VARIANTS[name])
        env['VERIF_NO_REEXEC'] = '1'
        env['PYTHONHASHSEED'] = '0'
        env['VERIF_ENV_ACTIVE'] = name
        cmd = [sys.executable, '-B', '-m', 'verif', 'envworlds', prop, '--tier', tier, '--seed', str(seed), '--n', str(getattr(mod, 'ENV_N', 300))]
        procs.append((name, subprocess.Popen(cmd, cwd=VERIF_DIR, env=env, stdout=subprocess.PIPE, stderr=subprocess.PIPE, text=True)))
    return procs


def collect_env_variants(procs):
    """-> (list of {'scenario','violation','fp'} items tagged with the variant, stats, harness errors)"""
    items, stats, herr = [], {}, []
    for name, p in procs:
        try:
            out, err = p.communicate(timeout=900)
        except subprocess.TimeoutExpired:
            p.kill()
            herr.append('environment variant %s: child timed out' % name)
            continue
        line = [l for l in out.splitlines() if l.startswith('ENVRES ')]
        if p.returncode != 0 or not line:
            herr.append('environment variant %s: child failed rc=%s %s' % (name, p.returncode, err[-800:]))
            continue
        res = json.loads(line[-1][7:])
        stats[name] = {'worlds': res['worlds'], 'text_encoding': res['encoding'], 'violations': len(res['violations'])}
        herr.extend('environment variant %s: %s' % (name, h) for h in res['harness_errors'])
        for it in res['violations']:
            it['scenario']['_env'] = name
            it['violation'] = dict(it['violation'], key=vkey(it['violation']) + '|env:' + name)
            it['violation'].setdefault('facts', {})['environment'] = name
            items.append(it)
    return items, stats, herr


# --------------------------------------------------------------------------
# known findings
# --------------------------------------------------------------------------
def load_findings():
    path = os.path.join(VERIF_DIR, 'known_findings.json')
    try:
        with open(path) as f:
            return json.load(f).get('findings', [])
    except FileNotFoundError:
        return []


def match_finding(prop, v, findings):
    for f in findings:
        if f.get('state') != 'open' or f.get('property') != prop:
            continue
        if f.get('clause') != v.get('clause'):
            continue
        facts = v.get('facts', {})
        if all(facts.get(k) == val for k, val in f.get('when', {}).items()):
            return f
    return None


# --------------------------------------------------------------------------
# minimisation and replay files
# --------------------------------------------------------------------------
def vkey(v):
    return v.get('key') or v.get('clause')


def minimise(mod, scn, v, budget_s=30):
    target = vkey(v)
    t0 = REAL_MONO()
    best, bestv = scn, v
    size0 = mod.size(scn) if hasattr(mod, 'size') else None
    if not hasattr(mod, 'shrink') or scn.get('_env'):
        return best, bestv, size0        # (a world of another process environment is not re-run in this one)
    def cands(scn_):
        if scn_.get('debug'):
            c = dict(scn_)
            c.pop('debug')
            yield c
        for c in mod.shrink(scn_):
            yield c
    progress = True
    while progress and REAL_MONO() - t0 < budget_s:
        progress = False
        for cand in cands(best):
            if REAL_MONO() - t0 > budget_s:
                break
            out = run_one(mod, cand)
            hit = [x for x in out['violations'] if vkey(x) == target]
            if hit:
                best, bestv = cand, hit[0]
                progress = True
                break
    return best, bestv, size0


def write_replay(prop, mod, tier, seed, scn, v, size0=None, fp=None):
    out = {'fp': fp} if scn.get('_env') else run_one(mod, scn)
    d = os.path.join(OUT_DIR, 'replays')
    os.makedirs(d, exist_ok=True)
    body = {
        'format': 1, 'property': prop, 'engine': getattr(mod, 'ENGINE', ''), 'tier': tier, 'seed': seed,
        'world': scn.get('_world'), 'scenario': scn,
        'violation': {'clause': v['clause'], 'key': vkey(v), 'facts': v.get('facts', {}), 'message': v.get('message', '')},
        'fingerprint': out['fp'], 'env': ENV_VARIANTS.get(scn.get('_env')) if scn.get('_env') else None, 'env_name': scn.get('_env'),
        'minimised_from': size0, 'minimised_to': mod.size(scn) if hasattr(mod, 'size') else None,
    }
    tag = hashlib.sha1(json.dumps([vkey(v), scn], sort_keys=True, default=str).encode()).hexdigest()[:12]
    path = os.path.join(d, '%s-%s.json' % (prop, tag))
    with open(path, 'w') as f:
        json.dump(body, f, indent=1, sort_keys=True, default=str)
    return path


def replay(path):
    with open(path) as f:
        body = json.load(f)
    prop = body['property']
    if body.get('env') and os.environ.get('VERIF_ENV_ACTIVE') != body.get('env_name'):
        # the world belongs to another process environment: replay it in a child started with that environment
        env = dict(os.environ)
        env.update(body['env'])
        env.update({'VERIF_NO_REEXEC': '1', 'PYTHONHASHSEED': '0', 'VERIF_ENV_ACTIVE': body.get('env_name') or 'x'})
        p = subprocess.run([sys.executable, '-B', '-m', 'verif', 'replay', path], cwd=VERIF_DIR, env=env, capture_output=True, text=True, timeout=900)
        sys.stdout.write(p.stdout)
        sys.stderr.write(p.stderr[-2000:])
        return p.returncode
    mod = load_check(prop)
    core.begin_run()        # same scratch path shape as in a check run (path lengths show up in byte counts)
    try:
        out = run_one(mod, body['scenario'])
    finally:
        core.end_run()
    if out.get('harness_error'):
        print('HARNESS-ERROR %s' % out['harness_error'])
        return 2
    want = body['violation']['key'].split('|env:')[0]
    hit = [v for v in out['violations'] if vkey(v) == want]
    if hit:
        same = (out['fp'] == body.get('fingerprint'))
        print('replay: %s reproduced (%s); fingerprint %s' % (want, hit[0].get('message', ''), 'identical' if same else 'DIFFERS'))
        print('VIOLATION property=%s replay=%s' % (prop, path))
        return 1
    print('replay: violation %s NOT reproduced on this tree (other violations: %s)' % (want, [vkey(v) for v in out['violations']]))
    return 0


# --------------------------------------------------------------------------
# the check driver
# --------------------------------------------------------------------------
def check(prop, tier, seed, budget_s=None):
    t_start = REAL_MONO()
    mod = load_check(prop)
    from verif import assert_repo
    assert_repo()
    if budget_s is None:
        if tier == 'quick':
            budget_s = float(os.environ.get('VERIF_QUICK_S', getattr(mod, 'QUICK_S', 40)))
        else:
            budget_s = float(os.environ.get('VERIF_THOROUGH_S', getattr(mod, 'THOROUGH_S', 480)))
    print('check %s tier=%s VERIF_SEED=%d workers=%d budget=%ss' % (prop, tier, seed, WORKERS, budget_s), flush=True)
    core.begin_run()
    harness_errors = []

    # 1. determinism
    n_det = getattr(mod, 'SELFCHECK_N', {'quick': 12, 'thorough': 60})[tier]
    det = selfcheck(prop, tier, seed, n_det)
    if det['mismatches']:
        harness_errors.append('determinism self-check failed: %s' % det['details'])
    print('determinism: %d worlds x2 reruns + fresh interpreter with PYTHONHASHSEED=%s: %d mismatches' % (
        n_det, det['hashseeds'][-1], det['mismatches']), flush=True)

    total = Agg()
    sweep_info = None
    env_stats = {}
    env_procs = []
    pool = make_pool()
    try:
        # 2. sweeps (complete over their stated finite set)
        sweep_scns = []
        if hasattr(mod, 'sweep'):
            sweep_scns = list(mod.sweep(tier))
        if sweep_scns:
            t0 = REAL_MONO()
            chunk = max(1, min(200, len(sweep_scns) // (WORKERS * 4) or 1))
            futs = [pool.submit(_chunk_explicit, prop, sweep_scns[i:i + chunk]) for i in range(0, len(sweep_scns), chunk)]
            sw = Agg()
            for f in cf.as_completed(futs):
                sw.merge(f.result())
            sweep_info = {'worlds': sw.worlds, 'wall_s': round(REAL_MONO() - t0, 2), 'faults_fired': dict(sorted(sw.fired.items())),
                          'distinct_signatures': len(sw.sigs), 'complete': True,
                          'stated_set': getattr(mod, 'SWEEP_SET', {}).get(tier, '')}
            total.merge(sw)
            print('sweep: %d worlds in %.1fs, %d violations' % (sw.worlds, REAL_MONO() - t0, len(sw.violations)), flush=True)

        # 2b. the same kind of worlds in child interpreters started with another process environment (locale); they run
        # alongside the seeded part
        env_procs = start_env_variants(prop, tier, seed, mod)

        # 3. seeded worlds until the budget is used
        chunk = getattr(mod, 'CHUNK', 40)
        deadline = t_start + budget_s
        nxt = 0
        inflight = set()
        max_worlds = getattr(mod, 'MAX_WORLDS', {}).get(tier)
        t0 = REAL_MONO()
        while True:
            min_worlds = getattr(mod, 'MIN_WORLDS', chunk * WORKERS)     # explored even if the budget is already spent
            while len(inflight) < WORKERS * 2 and (REAL_MONO() < deadline or nxt < min_worlds) and (max_worlds is None or nxt < max_worlds):
                inflight.add(pool.submit(_chunk_seeded, prop, tier, seed, nxt, nxt + chunk))
                nxt += chunk
            if not inflight:
                break
            done, inflight = cf.wait(inflight, return_when=cf.FIRST_COMPLETED)
            for f in done:
                total.merge(f.result())
        seeded_wall = REAL_MONO() - t0
        print('seeded: %d worlds total so far, %.1fs' % (total.worlds, seeded_wall), flush=True)
        if env_procs:
            items, env_stats, eh = collect_env_variants(env_procs)
            harness_errors.extend(eh)
            for it in items:
                total.violations.append({'scenario': it['scenario'], 'violation': it['violation'], 'fp': it.get('fp')})
            print('environment variants: %s' % json.dumps(env_stats, sort_keys=True), flush=True)
    except cf.process.BrokenProcessPool as e:
        harness_errors.append('worker died: %s' % e)
    finally:
        pool.shutdown(wait=True, cancel_futures=True)

    harness_errors.extend(total.harness_errors)

    # 4. violations: group, minimise, classify
    findings = load_findings()
    groups = {}
    for item in total.violations:
        groups.setdefault(vkey(item['violation']), []).append(item)
    reported = []
    known_seen = {}
    n_viol = 0
    for key in sorted(groups):
        items = groups[key]
        item = min(items, key=lambda it: len(json.dumps(it['scenario'], default=str)))
        v = item['violation']
        kf = match_finding(prop, v, findings)
        scn, v2, size0 = minimise(mod, item['scenario'], v, budget_s=getattr(mod, 'MINIMISE_S', 20))
        kf2 = match_finding(prop, v2, findings)
        if kf is not None and kf2 is not None:
            known_seen[kf2.get('id', kf2.get('what'))] = known_seen.get(kf2.get('id', kf2.get('what')), 0) + len(items)
            print('KNOWN-FINDING: property=%s %s [%s; %d worlds]' % (prop, kf2.get('what'), key, len(items)))
            continue
        path = write_replay(prop, mod, tier, seed, scn, v2, size0, fp=item.get('fp'))
        n_viol += 1
        reported.append({'key': key, 'clause': v2['clause'], 'message': v2.get('message', ''), 'facts': v2.get('facts', {}),
                         'worlds': len(items), 'replay': path})
        print('violation %s: %s facts=%s (%d worlds)' % (v2['clause'], v2.get('message', ''), json.dumps(v2.get('facts', {}), sort_keys=True, default=str), len(items)))
        print('VIOLATION property=%s replay=%s' % (prop, path), flush=True)

    # 5. evidence
    wall = REAL_MONO() - t_start
    cov = {
        'evaluations': total.units,
        'worlds': total.worlds,
        'distinct_nontrivial': len(total.nontrivial_sigs),
        'rule': getattr(mod, 'RULE', ''),
        'samples': total.samples[:5] or [{'note': 'no sample recorded'}],
        'worlds_per_hour': int(total.worlds / wall * 3600) if wall > 0 else 0,
        'evaluations_per_hour': int(total.units / wall * 3600) if wall > 0 else 0,
        'seeds_per_hour': int((total.worlds - (sweep_info or {}).get('worlds', 0)) / wall * 3600) if wall > 0 else 0,
        'simulated_seconds': total.sim_s,
        'events': total.events,
        'faults_fired': dict(sorted(total.fired.items())),
        'worlds_with_faults': total.faulted_worlds,
        'probes': dict(sorted(total.probes.items())),
        'distinct_signatures': len(total.sigs),
        'component_calls': dict(sorted(total.comps.items())),
        'real_components': getattr(mod, 'REAL_COMPONENTS', []),
        'stub_components': getattr(mod, 'STUB_COMPONENTS', []),
        'determinism': {k: det[k] for k in ('seeds_checked', 'reruns', 'hashseeds', 'mismatches')},
        'known_findings_seen': known_seen,
        'tainted_worlds': total.tainted,
        'violations_reported': reported,
        'harness_errors': len(harness_errors),
        'workers': WORKERS,
    }
    if env_stats:
        cov['process_environments'] = env_stats
    if total.schedules:
        cov['distinct_schedules'] = len(total.schedules)
    if sweep_info:
        cov['sweep'] = sweep_info
        cov['exhaustive'] = False  # the sweep is complete over its stated set; the seeded part is sampling
        cov['sweep_exhaustive_over_stated_set'] = True
    ev = {
        'property_id': prop, 'tier': tier, 'seed': seed, 'level': mod.LEVEL,
        'coverage': cov, 'assumptions': getattr(mod, 'ASSUMPTIONS', []),
        'wall_s': round(wall, 2), 'violations': n_viol,
    }
    os.makedirs(os.path.join(OUT_DIR, 'evidence'), exist_ok=True)
    evp = os.path.join(OUT_DIR, 'evidence', '%s.json' % prop)
    with open(evp + '.tmp', 'w') as f:
        json.dump(ev, f, indent=1, sort_keys=True, default=str)
    os.replace(evp + '.tmp', evp)
    print('evidence: %s (%d worlds, %d distinct non-trivial, %d fault kinds fired, %.1fs)' % (
        evp, total.worlds, len(total.nontrivial_sigs), len(total.fired), wall), flush=True)

    core.drop_process_scratch()
    core.end_run()
    if harness_errors:
        for h in harness_errors[:5]:
            print('HARNESS-ERROR %s' % h, flush=True)
    if n_viol:
        return 1     # a violation was demonstrated (replay file written), whatever else went wrong
    if harness_errors:
        return 2     # never 0 when the machinery itself failed
    print('OK property=%s held on everything explored' % prop)
    return 0
