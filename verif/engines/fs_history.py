"""fs histories for history-sim (C12): one long-lived MibCompiler with *real*
readers (directory / ZIP), file searcher, file borrower and file writer over the
interposed filesystem, driven through several compile() calls.  Some calls run
under injected I/O faults; between calls plain source files are touched,
rewritten, added or removed and the virtual clock moves.

Every fault-free call is also executed by objects created for it alone over a
byte-for-byte copy of the tree as it was when the call started (same files, same
mtimes): status map, errors and destination content must be equal - what the
long-lived objects went through earlier (including calls that failed because of
I/O errors) must not show.  A fault-free call with rebuild=True is additionally
compared with fresh objects over a pristine tree (same sources, empty
destination): once faults stop, the outcome is what it would have been without
them.
"""
import json
import os
import shutil
import zipfile

from verif.gen import basemibs, mibgen
from verif.sim import core

READ_SITES = ['os.stat', 'os.listdir', 'open', 'file.read']
WRITE_SITES = ['mkstemp', 'os.write', 'os.close', 'os.rename', 'os.makedirs']


def _w(path, data, mtime):
    os.makedirs(os.path.dirname(path), exist_ok=True)
    with open(path, 'w' if isinstance(data, str) else 'wb') as f:
        f.write(data)
    os.utime(path, (mtime, mtime))


def _src_file(src, name):
    if src.get('fuzzy') and name.upper().endswith('-MIB'):
        name = name[:-4].lower()           # found only through the readers' "-MIB" guessing
    return os.path.join('deep' if src.get('sub') else '', name + src.get('ext', ''))


def _render(site, src, name):
    specs = site['modules']
    sp = dict(specs[name])
    v = src.get('holds', {}).get(name, {}).get('variant')
    if v:
        sp['variant'] = v
    return mibgen.render(sp, specs)


def build_tree(site, root, muts=(), with_dst=True):
    """Materialise the site under `root` (real calls, not events) and apply the mutations so far."""
    with core.unhooked():
        os.makedirs(os.path.join(root, 'dst'))
        for i, src in enumerate(site['sources']):
            d = os.path.join(root, 'src%d' % i)
            os.makedirs(d)
            mt = core.EPOCH0 - src.get('age', 1000)
            if src['kind'] == 'badzip':
                _w(os.path.join(root, 'src%d.zip' % i), b'PK\x03\x04 this is not an archive', mt)
                continue
            for name in sorted(src.get('holds', {})):
                _w(os.path.join(d, _src_file(src, name)), _render(site, src, name), mt)
            if src.get('base'):
                for n, txt in sorted(basemibs.ALL_BASE.items()):
                    _w(os.path.join(d, n), txt, mt)
            if src.get('index'):
                lines = []
                for name in sorted(src['index']):
                    fn = 'f-%s.dat' % name.lower()
                    os.rename(os.path.join(d, _src_file(src, name)), os.path.join(d, fn))
                    lines.append('%s %s\n' % (name, fn))
                _w(os.path.join(d, '.index'), ''.join(lines), mt)
            if src['kind'] == 'zip':
                zp = os.path.join(root, 'src%d.zip' % i)
                with zipfile.ZipFile(zp, 'w', zipfile.ZIP_DEFLATED) as z:
                    for dp, dn, fn in core.R.walk(d):
                        dn.sort()
                        for f in sorted(fn):
                            full = os.path.join(dp, f)
                            zi = zipfile.ZipInfo(os.path.relpath(full, d), date_time=(2020, 9, 1, 10, 0, 0))
                            with open(full, 'rb') as fp:
                                z.writestr(zi, fp.read())
                os.utime(zp, (mt, mt))
        for i, b in enumerate(site.get('borrowers', ())):
            d = os.path.join(root, 'bor%d' % i)
            os.makedirs(d)
            for n in sorted(b.get('holds', ())):
                _w(os.path.join(d, n + _sfx(site)), '{"borrowed": "%s", "from": %d}\n' % (n, i), core.EPOCH0 - b.get('age', 1000))
        if with_dst:
            for n, a in sorted(site.get('dst', {}).items()):
                _w(os.path.join(root, 'dst', n + _sfx(site)), '{"previous": "%s"}\n' % n, core.EPOCH0 + (50 if a == 'fresh' else -100000))
    for m in muts:
        apply_mut(site, root, dict(m), None)


def _sfx(site):
    return '.py' if site.get('flavour') == 'py' else '.json'


def apply_mut(site, root, m, world):
    """Mutations of plain files between calls (never of archives or .index files: readers legitimately read
    those once)."""
    kind = m['m']
    if kind == 'clock':
        if world is not None:
            world.advance(m['dt'])
        return
    now = (world.now if world is not None else m.get('_now', core.EPOCH0))
    m['_now'] = now          # remembered so that a pristine tree built later gets the same stamp
    with core.unhooked():
        if kind in ('touch', 'rewrite', 'add'):
            src = site['sources'][m['src']]
            p = os.path.join(root, 'src%d' % m['src'], _src_file(src, m['name']))
            if kind == 'touch':
                if os.path.exists(p):
                    os.utime(p, (now, now))
            else:
                s2 = dict(src, holds=dict(src.get('holds', {}), **{m['name']: {'variant': m.get('variant')} if m.get('variant') else {}}))
                _w(p, _render(site, s2, m['name']), now)
        elif kind == 'remove':
            src = site['sources'][m['src']]
            p = os.path.join(root, 'src%d' % m['src'], _src_file(src, m['name']))
            if os.path.exists(p):
                os.unlink(p)
        elif kind == 'rmdst':
            p = os.path.join(root, 'dst', m['name'] + _sfx(site))
            if os.path.exists(p):
                os.unlink(p)
        else:
            raise ValueError(kind)


def make_compiler(site, root, parser):
    from pysmi.borrower.anyfile import AnyFileBorrower
    from pysmi.borrower.pyfile import PyFileBorrower
    from pysmi.codegen import JsonCodeGen, PySnmpCodeGen
    from pysmi.compiler import MibCompiler
    from pysmi.reader.localfile import FileReader
    from pysmi.reader.zipreader import ZipReader
    from pysmi.searcher import AnyFileSearcher, PyFileSearcher, StubSearcher
    from pysmi.writer import FileWriter, PyFileWriter
    dst = os.path.join(root, 'dst')
    py = site.get('flavour') == 'py'
    with core.unhooked():      # archives are read when the reader is made; that is construction, not a call of the history
        if py:
            wr = PyFileWriter(dst).setOptions(pyCompile=False)
            cg = PySnmpCodeGen()
        else:
            wr = FileWriter(dst).setOptions(suffix='.json')
            cg = JsonCodeGen()
        c = MibCompiler(parser, cg, wr)
        for i, src in enumerate(site['sources']):
            if src['kind'] in ('zip', 'badzip'):
                c.addSources(ZipReader(os.path.join(root, 'src%d.zip' % i), ignoreErrors=not src.get('strict', False)))
            else:
                c.addSources(FileReader(os.path.join(root, 'src%d' % i), recursive=src.get('recursive', True), ignoreErrors=not src.get('strict', False)))
        for s in site.get('searchers', ()):
            if s.startswith('stub:'):
                c.addSearchers(StubSearcher(*[x for x in s[5:].split(',') if x]))
            elif py:
                c.addSearchers(PyFileSearcher(dst))
            else:
                c.addSearchers(AnyFileSearcher(dst).setOptions(exts=['.json']))
        for i, b in enumerate(site.get('borrowers', ())):
            rd = FileReader(os.path.join(root, 'bor%d' % i))
            if py:
                c.addBorrowers(PyFileBorrower(rd, genTexts=b.get('genTexts', False)))
            else:
                c.addBorrowers(AnyFileBorrower(rd, genTexts=b.get('genTexts', False)).setOptions(exts=['.json']))
    return c


def _scrub(text, root):
    """Instance roots (long-lived L, copy F, pristine N) all read <R>: files copied from L keep L's path in their comments."""
    h = os.path.dirname(root)
    for x in ('L', 'F', 'N'):
        text = text.replace(os.path.join(h, x), '<R>')
    return text


def observe(R, root, escaped=None):
    import hashlib
    from verif.engines.history_sim import status_obs
    if escaped is not None:
        return json.loads(_scrub(json.dumps(['FOREIGN', type(escaped).__name__, str(escaped)[:200]]), root))
    dst = {}
    snap = core.snapshot(os.path.join(root, 'dst'), with_mtime=False)
    for rel, rec in sorted(snap.items()):
        if rec[0] == 'f':
            data = core.read_bytes(os.path.join(root, 'dst', rel)) or b''
            dst[rel] = hashlib.sha1(_scrub(data.decode('utf-8', 'replace'), root).encode()).hexdigest()[:16]
        elif rec[0] != 'd':
            dst[rel] = rec[0]
    obs = {'status': dict((k, status_obs(v)) for k, v in sorted(R.items())), 'dst': dst}
    return json.loads(_scrub(json.dumps(obs, sort_keys=True, default=repr), root))


def run_call(c, op, world, root, faulted):
    from pysmi import error
    opts = dict(op.get('options', {}))
    if faulted:
        world.rate = op.get('rate')
        world.faults = [dict(f, op=world.op) for f in op.get('faults', ())]
    n0 = len(world.fired_list)
    try:
        try:
            R = c.compile(*op['requested'], **opts)
            esc = None
        except (core.StepBudget, core.WorldTimeout, KeyboardInterrupt):
            raise
        except Exception as e:  # noqa
            R, esc = None, e
    finally:
        world.rate = None
        world.faults = []
    return observe(R, root, esc), len(world.fired_list) - n0


def execute(inst, op, results, world):
    """One 'fsc' operation on the given Instances (long-lived or fresh)."""
    site = op['site']
    hroot = world.root
    if not getattr(inst, 'is_fresh', False):
        st = inst.fs
        if not st:
            st['root'] = os.path.join(hroot, 'L')
            st['muts'] = []
            build_tree(site, st['root'])
            st['c'] = make_compiler(site, st['root'], inst.parser(op.get('dialect', 'smiV1Relaxed')))
        for m in op.get('mut', ()):
            m = dict(m)             # the scenario itself is never modified
            apply_mut(site, st['root'], m, world)
            if m['m'] != 'clock':
                st['muts'].append(m)
        faulted = bool(op.get('rate') or op.get('faults'))
        if not faulted:
            # the tree as this call finds it, for the objects made for this call alone
            with core.unhooked():
                f = os.path.join(hroot, 'F')
                shutil.rmtree(f, ignore_errors=True)
                shutil.copytree(st['root'], f, symlinks=True)
                for dp, dn, fn in core.R.walk(st['root']):
                    for x in fn:
                        s_ = core.R.stat(os.path.join(dp, x))
                        os.utime(os.path.join(f, os.path.relpath(os.path.join(dp, x), st['root'])), ns=(s_.st_atime_ns, s_.st_mtime_ns))
        obs, fired = run_call(st['c'], op, world, st['root'], faulted)
        st['last_fired'] = fired
        st['last_muts'] = [dict(m) for m in st['muts']]
        return obs
    # fresh objects over the copy
    f = os.path.join(hroot, 'F')
    c = make_compiler(site, f, inst.parser(op.get('dialect', 'smiV1Relaxed')))
    obs, _ = run_call(c, op, world, f, False)
    return obs


def pristine(op, world, muts, parser):
    """Fresh objects over a tree that never saw a fault or an earlier call: sources as they are now, empty destination."""
    site = op['site']
    n = os.path.join(world.root, 'N')
    with core.unhooked():
        shutil.rmtree(n, ignore_errors=True)
    build_tree(site, n, muts=muts, with_dst=False)
    c = make_compiler(site, n, parser)
    obs, _ = run_call(c, op, world, n, False)
    return obs


def comparable_after_rebuild(obs):
    """What a rebuild=True call promises irrespective of what the destination held before: statuses, errors, and
    the content of every module file the call reports as written."""
    if not isinstance(obs, dict):
        return obs
    written = sorted(k for k, v in obs['status'].items() if v['s'] in ('compiled', 'borrowed'))
    files = {}
    for k in written:
        for rel, h in obs['dst'].items():
            if rel.split('.')[0] == k and '/' not in rel:
                files[rel] = h
    return {'status': obs['status'], 'files': files}


# --------------------------------------------------------------------------
# generation
# --------------------------------------------------------------------------
def gen_history(rng, tier):
    n = rng.choice([2, 3, 3, 4])
    specs = mibgen.gen_modules(rng, n, cycles=rng.random() < 0.3, defects=rng.choice([0.0, 0.0, 0.25]), smiv1=0.1, identity=0.6)
    names = sorted(specs)
    flavour = 'py' if rng.random() < 0.06 else 'json'
    ns = rng.choice([1, 2, 2, 3])
    sources = []
    for i in range(ns):
        kind = rng.choice(['dir', 'dir', 'dir', 'zip', 'badzip'] if ns > 1 else ['dir', 'dir', 'zip'])
        src = {'kind': kind, 'strict': rng.random() < 0.5, 'holds': {}, 'sub': rng.random() < 0.25, 'ext': rng.choice(['', '', '.txt', '.mib']),
               'age': rng.choice([0, 1, 1000, 100000]), 'base': False}
        if kind == 'dir' and rng.random() < 0.2:
            src['fuzzy'] = True
        sources.append(src)
    holders_ok = [i for i, s in enumerate(sources) if s['kind'] != 'badzip']
    if not holders_ok:
        sources[-1]['kind'] = 'dir'
        holders_ok = [len(sources) - 1]
    for nm in names:
        hs_ = [i for i in holders_ok if rng.random() < 0.6] or ([rng.choice(holders_ok)] if rng.random() < 0.85 else [])
        for i in hs_:
            sources[i]['holds'][nm] = {'variant': rng.choice(mibgen.DEFECTS)} if rng.random() < 0.12 else {}
    sources[rng.choice(holders_ok)]['base'] = True
    for s in sources:
        if s['kind'] == 'dir' and s['holds'] and not s['sub'] and rng.random() < 0.15:
            s['index'] = sorted(rng.sample(sorted(s['holds']), rng.randrange(1, len(s['holds']) + 1)))
    borrowers = []
    for i in range(rng.choice([0, 0, 1, 2])):
        borrowers.append({'holds': sorted(x for x in names + ['SNMPv2-SMI'] if rng.random() < 0.5), 'genTexts': rng.random() < 0.4, 'age': rng.choice([0, 1000])})
    searchers = []
    if rng.random() < 0.2:
        searchers.append('stub:' + ','.join(sorted(rng.sample(names + list(basemibs.BASE_NAMES), 2))))
    if rng.random() < 0.85:
        searchers.append('any')
    site = {'modules': specs, 'sources': sources, 'borrowers': borrowers, 'searchers': searchers, 'flavour': flavour,
            'dst': dict((x, rng.choice(['fresh', 'stale'])) for x in names + list(basemibs.BASE_NAMES) if rng.random() < 0.15)}
    plain = [(i, nm) for i, s in enumerate(sources) if s['kind'] == 'dir' and not s.get('index') for nm in names]
    ops = []
    k = rng.choice([2, 3, 3, 4, 5])
    faulty_hist = rng.random() < 0.7
    for j in range(k):
        op = {'op': 'fsc', 'site': site, 'requested': rng.sample(names, rng.choice([1, 1, 2]) if len(names) > 1 else 1), 'options': {}, 'mut': []}
        if rng.random() < 0.07:
            op['requested'].append('NO-SUCH-MIB')
        for nm, p in (('noDeps', .12), ('rebuild', .35), ('genTexts', .25), ('ignoreErrors', .5)):
            if rng.random() < p:
                op['options'][nm] = True
        # options the command-line tools pass along with every call although compile() has no use for them
        if rng.random() < 0.15:
            op['options']['fuzzyMatching'] = rng.random() < 0.3
        if rng.random() < 0.1:
            op['options'][rng.choice(['lowcaseMatching', 'uppercaseMatching', 'originalMatching'])] = False
        if j and plain:
            for _ in range(rng.choice([0, 1, 1, 2])):
                i, nm = rng.choice(plain)
                r = rng.random()
                if r < 0.3:
                    op['mut'].append({'m': 'touch', 'src': i, 'name': nm})
                elif r < 0.6:
                    op['mut'].append({'m': 'rewrite', 'src': i, 'name': nm, 'variant': rng.choice([None, None] + mibgen.DEFECTS)})
                elif r < 0.75:
                    op['mut'].append({'m': 'remove', 'src': i, 'name': nm})
                elif r < 0.9:
                    op['mut'].append({'m': 'add', 'src': i, 'name': nm})
                else:
                    op['mut'].append({'m': 'rmdst', 'name': nm})
        if j and rng.random() < 0.5:
            op['mut'].insert(0, {'m': 'clock', 'dt': rng.choice([0, 1, 1, 60, 100000])})
        last = j == k - 1
        if faulty_hist and not last and rng.random() < 0.6:
            sites = sorted(rng.sample(READ_SITES + WRITE_SITES, rng.randrange(1, 6)))
            # (no ENOENT for files that exist: to a reader that is the absence of the file, and the absence of an .index is
            # legitimately remembered for the life of the reader - like the content of an archive)
            op['rate'] = {'p': rng.choice([0.02, 0.05, 0.15, 0.4]), 'seed': rng.randrange(1 << 30), 'sites': sites, 'actions': ['errno', 'short'], 'not_args': ['ENOENT']}
        ops.append(op)
    if faulty_hist and rng.random() < 0.7:
        ops[-1]['options']['rebuild'] = True
    return ops


def shrink_op(op):
    """Candidate simplifications of one fsc op (the site is shared: callers copy it to every op)."""
    import copy
    if op.get('rate'):
        o = copy.deepcopy(op)
        o.pop('rate')
        yield o
        if len(op['rate'].get('sites', [])) > 1:
            for s in op['rate']['sites']:
                o = copy.deepcopy(op)
                o['rate']['sites'] = [x for x in op['rate']['sites'] if x != s]
                yield o
    for i in range(len(op.get('mut', []))):
        o = copy.deepcopy(op)
        del o['mut'][i]
        yield o
    for k in sorted(op.get('options', {})):
        o = copy.deepcopy(op)
        del o['options'][k]
        yield o
    if len(op['requested']) > 1:
        for i in range(len(op['requested'])):
            o = copy.deepcopy(op)
            del o['requested'][i]
            yield o


def shrink_site(site):
    import copy
    for key in ('borrowers', 'searchers'):
        for i in range(len(site.get(key, []))):
            s = copy.deepcopy(site)
            del s[key][i]
            yield s
    for i, src in enumerate(site['sources']):
        for nm in sorted(src.get('holds', {})):
            s = copy.deepcopy(site)
            del s['sources'][i]['holds'][nm]
            if nm in (s['sources'][i].get('index') or []):
                s['sources'][i]['index'].remove(nm)
            yield s
            if src['holds'][nm].get('variant'):
                s = copy.deepcopy(site)
                s['sources'][i]['holds'][nm] = {}
                yield s
        for fld in ('sub', 'strict', 'index'):
            if src.get(fld):
                s = copy.deepcopy(site)
                s['sources'][i][fld] = False if fld != 'index' else []
                yield s
        if src.get('ext'):
            s = copy.deepcopy(site)
            s['sources'][i]['ext'] = ''
            yield s
    if site.get('dst'):
        for nm in sorted(site['dst']):
            s = copy.deepcopy(site)
            del s['dst'][nm]
            yield s
    if site.get('flavour') == 'py':
        s = copy.deepcopy(site)
        s['flavour'] = 'json'
        yield s
