"""compile-sim: the real MibCompiler.compile() with the real parser, the
real symbol-table builder and a real code generator, each behind a tap that
records every call and can raise an injected package error; sources,
searchers, borrower readers and the writer are simulated components whose
outcomes come from the scenario.  Serves C07 C08 C09 C10(a) C19 and the
dry-run worlds of C13.
"""
import copy
import hashlib
import json
import os

from verif.gen import basemibs, mibgen
from verif.sim import core

_cache = {}

OPTION_NAMES = ['noDeps', 'rebuild', 'dryRun', 'genTexts', 'ignoreErrors', 'writeMibs']
SIX = ('compiled', 'untouched', 'failed', 'unprocessed', 'missing', 'borrowed')

ERR_CLASSES = ['PySmiError', 'PySmiLexerError', 'PySmiParserError', 'PySmiSyntaxError', 'PySmiSearcherError',
               'PySmiReaderError', 'PySmiReaderFileNotModifiedError', 'PySmiCodegenError', 'PySmiSemanticError', 'PySmiWriterError']
SITE_ERR = {
    'src.getData': ['PySmiReaderError', 'PySmiError', 'PySmiReaderFileNotModifiedError'],
    'parser.parse': ['PySmiLexerError', 'PySmiParserError', 'PySmiSyntaxError'],
    'symtab.genCode': ['PySmiSemanticError', 'PySmiCodegenError'],
    'codegen.genCode': ['PySmiCodegenError', 'PySmiSemanticError'],
    'searcher.fileExists': ['PySmiSearcherError', 'PySmiError'],
    'breader.getData': ['PySmiReaderError', 'PySmiError'],
    'writer.putData': ['PySmiWriterError'],
}


def get_parser():
    if 'parser' not in _cache:
        from pysmi.parser.smi import parserFactory
        from pysmi.parser.dialect import smiV1Relaxed
        _cache['parser'] = parserFactory(**smiV1Relaxed)()
    p = _cache['parser']
    p.reset()
    return p


def new_codegen(kind):
    from pysmi.codegen import JsonCodeGen, NullCodeGen, PySnmpCodeGen
    if kind == 'null':
        return NullCodeGen()        # what mibdump sets up for --destination-format=null: no text, an anonymous summary
    return JsonCodeGen() if kind == 'json' else PySnmpCodeGen()


def digest(x):
    if x is None:
        return None
    if isinstance(x, str):
        w = core.active()
        if w is not None and w.root:
            x = x.replace(w.root, '<ROOT>')   # generated comments quote the source path
        x = x.encode('utf-8', 'replace')
    elif not isinstance(x, bytes):
        x = json.dumps(x, sort_keys=True, default=repr).encode()
    return hashlib.sha1(x).hexdigest()[:12]


class Call(object):
    __slots__ = ('seq', 'site', 'comp', 'mib', 'ok', 'res', 'exc', 'kw', 'injected', 'ctx')

    def __init__(self, **k):
        self.injected = False
        self.ctx = None
        self.kw = {}
        self.comp = None
        self.res = None
        self.exc = None
        for a, b in k.items():
            setattr(self, a, b)

    def brief(self):
        return [self.site, self.comp, self.mib, 'ok' if self.ok else 'raise:%s' % type(self.exc).__name__]


class Trace(object):
    second = None

    def __init__(self, scn, world):
        self.http_roots = {}
        scn = dict(scn)
        if scn.get('second'):
            scn['sources'] = copy.deepcopy(scn.get('sources', []))
        scn['inject'] = [dict((k, v) for k, v in i.items() if k != '_done') for i in scn.get('inject', ())]
        self.scn = scn
        self.world = world
        self.calls = []
        self.R = None
        self.escaped = None
        self.lookup = None       # name currently being fetched (context for parse/symtab)
        self.injected_excs = []
        self.site_counts = {}

    def by(self, site):
        return [c for c in self.calls if c.site == site]


def _mk_err(clsname, msg):
    from pysmi import error
    return getattr(error, clsname)(msg)


class _Tap(object):
    def __init__(self, trace):
        self._t = trace

    def _call(self, site, comp, mib, thunk, kw=None, payload=lambda r: None):
        t = self._t
        w = t.world
        n = t.site_counts.get(site, 0)
        t.site_counts[site] = n + 1
        c = Call(seq=len(t.calls), site=site, comp=comp, mib=mib, ok=False, kw=kw or {}, ctx=t.lookup)
        t.calls.append(c)
        for inj in t.scn.get('inject', ()):
            if inj['site'] == site and (inj['nth'] == n if 'mib' not in inj else (inj['mib'] == mib and not inj.get('_done'))):
                if 'mib' in inj and inj.get('once', True):
                    inj['_done'] = True
                e = _mk_err(inj['cls'], 'injected %s at %s #%d' % (inj['cls'], site, n))
                c.exc = e
                c.injected = True
                t.injected_excs.append(e)
                k = 'pkgerror:%s@%s' % (inj['cls'], site)
                w.fired[k] = w.fired.get(k, 0) + 1
                w.event(site, str(comp), mib, 'fault:pkgerror:%s' % inj['cls'])
                raise e
        try:
            r = thunk()
        except BaseException as e:  # noqa
            c.exc = e
            w.event(site, str(comp), mib, 'raise:%s' % type(e).__name__)
            raise
        c.ok = True
        c.res = r
        w.event(site, str(comp), mib, 'ok', payload(r))
        return r


class SimSource(_Tap):
    def __init__(self, trace, idx, spec):
        _Tap.__init__(self, trace)
        self.idx = idx
        self.spec = spec

    def __str__(self):
        return 'SimSource#%d' % self.idx

    def setOptions(self, **kw):
        return self

    def _text_for(self, name):
        scn = self._t.scn
        h = self.spec.get('holds', {}).get(name)
        if h is None and self.spec.get('casefold'):
            # like the file readers: the name is also tried in upper case; the alias reported is the variant that matched
            for k in sorted(self.spec.get('holds', {})):
                if k.upper() == name.upper():
                    h = self.spec['holds'][k]
                    self._alias = k
                    name = k
                    break
        if h is None:
            base = self.spec.get('base', 'all')
            if name in basemibs.ALL_BASE and (base == 'all' or (isinstance(base, list) and name in base)):
                return 'ok', basemibs.ALL_BASE[name]
            return 'notfound', None
        o = h.get('o', 'ok')
        if o != 'ok':
            return o, None
        if 'text' in h:
            return 'ok', h['text']
        mods = scn.get('files', {}).get(name, [name])
        specs = scn['modules']
        parts = []
        for m in mods:
            if m not in specs:
                continue
            sp = dict(specs[m])
            ov = h.get('variants', {}).get(m)
            if ov:
                sp['variant'] = ov
            parts.append(mibgen.render(sp, specs))
        return 'ok', '\n'.join(parts)

    def getData(self, mibname, **options):
        from pysmi import error
        from pysmi.mibinfo import MibInfo
        self._t.lookup = mibname

        def thunk():
            self._alias = mibname
            o, text = self._text_for(mibname)
            if o == 'ok':
                self._t.world.probe('source-served')
                if self._alias != mibname:
                    self._t.world.probe('alias-lookup')
                return MibInfo(path='sim://src%d/%s' % (self.idx, self._alias), file=self._alias + '.mib', name=self._alias,
                               mtime=self.spec.get('mtime', core.EPOCH0)), text
            if o == 'notfound':
                raise error.PySmiReaderFileNotFoundError('source MIB %s not found' % mibname, reader=self)
            if o == 'error':
                self._t.world.fired['source-error'] = self._t.world.fired.get('source-error', 0) + 1
                raise error.PySmiReaderError('simulated reader failure for %s' % mibname, reader=self)
            raise RuntimeError('unknown source outcome %r' % o)
        return self._call('src.getData', self.idx, mibname, thunk, payload=lambda r: digest(r[1]))


class TapParser(_Tap):
    def __init__(self, trace, real):
        _Tap.__init__(self, trace)
        self._real = real

    def __str__(self):
        return 'TapParser'

    def reset(self):
        return self._real.reset()

    def parse(self, data, **kwargs):
        return self._call('parser.parse', 0, self._t.lookup, lambda: self._real.parse(data, **kwargs),
                          payload=lambda r: digest([m[0] for m in r]))


def make_symtab_tap(trace):
    from pysmi.codegen.symtable import SymtableCodeGen

    class TapSymtab(_Tap):
        def __init__(self):
            _Tap.__init__(self, trace)
            self._real = SymtableCodeGen()

        def __getattr__(self, name):
            return getattr(self._real, name)

        def genCode(self, ast, symbolTable, **kwargs):
            name = ast[0] if isinstance(ast, (tuple, list)) and ast else '?'
            return self._call('symtab.genCode', 0, name, lambda: self._real.genCode(ast, symbolTable, **kwargs), kw={'ast': ast},
                              payload=lambda r: digest([r[0].name, list(r[0].imported)]))
    return TapSymtab


class TapCodegen(_Tap):
    def __init__(self, trace, real):
        _Tap.__init__(self, trace)
        self._real = real

    def __str__(self):
        return 'TapCodegen'

    def __getattr__(self, name):
        return getattr(self._real, name)

    def genCode(self, ast, symbolTable, **kwargs):
        name = ast[0] if isinstance(ast, (tuple, list)) and ast else '?'
        kw = {k: kwargs.get(k) for k in ('genTexts', 'dstTemplate')}
        kw['has_textFilter'] = kwargs.get('textFilter') is not None
        kw['ast'] = ast
        return self._call('codegen.genCode', 0, name, lambda: self._real.genCode(ast, symbolTable, **kwargs), kw=kw,
                          payload=lambda r: digest(r[1]))

    def genIndex(self, processed, **kwargs):
        return self._call('codegen.genIndex', 0, '', lambda: self._real.genIndex(processed, **kwargs), payload=digest)


class SimSearcher(_Tap):
    def __init__(self, trace, idx, spec):
        _Tap.__init__(self, trace)
        self.idx = idx
        self.spec = spec
        if spec.get('flavour') == 'realstub':
            from pysmi.searcher.stub import StubSearcher
            self._real = StubSearcher(*[n for n, a in sorted(spec.get('answers', {}).items()) if a == 'fresh'])

    def __str__(self):
        return 'SimSearcher#%d' % self.idx

    def fileExists(self, mibname, mtime, rebuild=False):
        from pysmi import error
        spec = self.spec

        def thunk():
            if spec.get('flavour') == 'realstub':
                return self._real.fileExists(mibname, mtime, rebuild=rebuild)
            if rebuild and spec.get('flavour', 'file') in ('file', 'age'):
                return None
            if spec.get('flavour') == 'age':
                # like the file searchers: a stored copy with a time stamp; up to date iff it is not older than what it is compared with
                have = spec.get('have', {}).get(mibname)
                if have is not None and have >= mtime:
                    raise error.PySmiFileNotModifiedError('simulated: stored %s (%s) is not older than %s' % (mibname, have, mtime), searcher=self)
                raise error.PySmiFileNotFoundError('simulated: no up-to-date compiled %s' % mibname, searcher=self)
            a = spec.get('answers', {}).get(mibname, spec.get('default', 'stale'))
            if a == 'fresh':
                raise error.PySmiFileNotModifiedError('simulated: %s is up to date' % mibname, searcher=self)
            if a == 'error':
                self._t.world.fired['searcher-error'] = self._t.world.fired.get('searcher-error', 0) + 1
                raise error.PySmiSearcherError('simulated searcher failure for %s' % mibname, searcher=self)
            raise error.PySmiFileNotFoundError('simulated: no compiled %s' % mibname, searcher=self)
        return self._call('searcher.fileExists', self.idx, mibname, thunk, kw={'mtime': mtime, 'rebuild': rebuild})


class SimBorrowReader(_Tap):
    """The reader inside a real AnyFileBorrower."""

    def __init__(self, trace, idx, spec):
        _Tap.__init__(self, trace)
        self.idx = idx
        self.spec = spec

    def __str__(self):
        return 'SimBorrowReader#%d' % self.idx

    def setOptions(self, **kw):
        return self

    def getData(self, mibname, **options):
        from pysmi import error
        from pysmi.mibinfo import MibInfo

        def thunk():
            o = self.spec.get('holds', {}).get(mibname, 'notfound')
            if o == 'ok':
                self._t.world.probe('borrow-served')
                return (MibInfo(path='sim://borrow%d/%s' % (self.idx, mibname), file=mibname + '.x', name=mibname,
                                mtime=self.spec.get('mtime', core.EPOCH0)),
                        'BORROWED[%d,%s,texts=%s]\n' % (self.idx, mibname, self.spec.get('genTexts', False)) * 3)
            if o == 'error':
                self._t.world.fired['borrower-error'] = self._t.world.fired.get('borrower-error', 0) + 1
                raise error.PySmiReaderError('simulated borrower failure for %s' % mibname, reader=self)
            raise error.PySmiReaderFileNotFoundError('no %s to borrow' % mibname, reader=self)
        return self._call('breader.getData', self.idx, mibname, thunk, kw={k: options.get(k) for k in ('genTexts', 'exts')},
                          payload=lambda r: digest(r[1]))


class TapBorrower(_Tap):
    def __init__(self, trace, idx, real):
        _Tap.__init__(self, trace)
        self.idx = idx
        self._real = real

    def __str__(self):
        return 'TapBorrower#%d' % self.idx

    def __getattr__(self, name):
        return getattr(self._real, name)

    def getData(self, mibname, **options):
        return self._call('borrower.getData', self.idx, mibname, lambda: self._real.getData(mibname, **options),
                          kw={'genTexts': options.get('genTexts')}, payload=lambda r: digest(r[1]))


class SimWriter(_Tap):
    def __init__(self, trace, spec):
        _Tap.__init__(self, trace)
        self.spec = spec
        self.stored = {}

    def __str__(self):
        return 'SimWriter'

    def setOptions(self, **kw):
        return self

    def putData(self, mibname, data, comments=(), dryRun=False):
        from pysmi import error

        def thunk():
            if mibname in self.spec.get('writer_fail', ()):
                self._t.world.fired['writer-error'] = self._t.world.fired.get('writer-error', 0) + 1
                raise error.PySmiWriterError('simulated writer failure for %s' % mibname, writer=self)
            if not dryRun:
                self.stored[mibname] = data
            return None
        c = None
        try:
            return self._call('writer.putData', 0, mibname, thunk, kw={'dryRun': dryRun, 'data': data})
        finally:
            pass

    def getData(self, filename):
        return ''


class RealTap(_Tap):
    """Generic tap around a real pysmi component running over the interposed filesystem."""

    def __init__(self, trace, idx, real, site):
        _Tap.__init__(self, trace)
        self.idx = idx
        self._real = real
        self._site = site

    def __str__(self):
        return 'RealTap(%s#%s)' % (self._site, self.idx)

    def __getattr__(self, name):
        return getattr(self._real, name)

    def setOptions(self, **kw):
        self._real.setOptions(**kw)
        return self

    def getData(self, mibname, **options):
        if self._site == 'src.getData':
            self._t.lookup = mibname
        return self._call(self._site, self.idx, mibname, lambda: self._real.getData(mibname, **options),
                          kw={'genTexts': options.get('genTexts')}, payload=lambda r: digest(r[1]) if isinstance(r, tuple) else None)

    def fileExists(self, mibname, mtime, rebuild=False):
        return self._call('searcher.fileExists', self.idx, mibname, lambda: self._real.fileExists(mibname, mtime, rebuild=rebuild),
                          kw={'mtime': mtime, 'rebuild': rebuild})

    def putData(self, mibname, data, comments=(), dryRun=False):
        return self._call('writer.putData', 0, mibname, lambda: self._real.putData(mibname, data, comments=comments, dryRun=dryRun),
                          kw={'dryRun': dryRun, 'data': data})


def tap_instance(t, idx, real, site):
    """Tap a real pysmi component in place (an instance attribute shadows the method).  The object handed to
    MibCompiler keeps its class, its __str__/__eq__ and its options - everything a wrapper object would hide from
    code that compares, prints or reconfigures the components it is given."""
    tap = _Tap(t)
    if site in ('src.getData', 'borrower.getData'):
        orig = real.getData

        def getData(mibname, **options):
            if site == 'src.getData':
                t.lookup = mibname
            return tap._call(site, idx, mibname, lambda: orig(mibname, **options), kw={'genTexts': options.get('genTexts')},
                             payload=lambda r: digest(r[1]) if isinstance(r, tuple) else None)
        real.getData = getData
    elif site == 'searcher.fileExists':
        orig = real.fileExists

        def fileExists(mibname, mtime, rebuild=False):
            return tap._call(site, idx, mibname, lambda: orig(mibname, mtime, rebuild=rebuild), kw={'mtime': mtime, 'rebuild': rebuild})
        real.fileExists = fileExists
    elif site == 'writer.putData':
        orig = real.putData

        def putData(mibname, data, comments=(), dryRun=False):
            return tap._call(site, 0, mibname, lambda: orig(mibname, data, comments=comments, dryRun=dryRun), kw={'dryRun': dryRun, 'data': data})
        real.putData = putData
    else:
        raise ValueError(site)
    return real


def _shared_fetch(mibname, ctx):
    """The one look-up function behind every CallbackReader source of a world; which repository is meant comes with
    the context argument (so all these readers print alike)."""
    src = ctx
    o, text = src._text_for(mibname)
    if o == 'ok':
        src._t.world.probe('source-served')
        return text
    if o == 'error':
        from pysmi import error
        src._t.world.fired['source-error'] = src._t.world.fired.get('source-error', 0) + 1
        raise error.PySmiReaderError('simulated reader failure for %s' % mibname)
    return None


def make_borrower(t, i, b, reader):
    """A real AnyFileBorrower; its flavour is given to the constructor or set afterwards through setOptions()"""
    from pysmi.borrower.anyfile import AnyFileBorrower
    if b.get('late_flavour'):
        br = AnyFileBorrower(reader)
        br.setOptions(genTexts=b.get('genTexts', False))
    else:
        br = AnyFileBorrower(reader, genTexts=b.get('genTexts', False))
    return br


class _SimHttpResponse(object):
    def __init__(self, code, body, lastmod):
        self.code = code
        self._b = body
        self._lm = lastmod

    def getheader(self, name, default=None):
        return self._lm if name == 'Last-Modified' and self._lm else default

    def read(self, n=-1):
        return self._b if n is None or n < 0 else self._b[:n]


def sim_urlopen(t):
    """The network of a world: requests of the real HttpReader are answered from the document roots of the world's
    simulated servers; per file name the scenario may say refuse / 404 / 500 / cut body / no Last-Modified."""
    def urlopen(reqobj, *a, **k):
        w = t.world
        url = reqobj.full_url
        host = url.split('//', 1)[1].split('/', 1)[0].split(':')[0]
        name = url.rsplit('/', 1)[-1]
        d, spec = t.http_roots.get(host, (None, {}))
        fault = spec.get('net', {}).get(name)
        path = os.path.join(d, name) if d else None
        data = core.read_bytes(path) if path and os.sep not in name and name not in ('', '.', '..') else None

        def fire(kind):
            w.fired['http:' + kind] = w.fired.get('http:' + kind, 0) + 1
            w.event('http.open', host, name, 'fault:' + kind)
        if data is None:
            w.event('http.open', host, name, 'ok:404')
            raise IOError('HTTP Error 404: Not Found')
        if fault == 'refuse':
            fire('refuse')
            raise OSError(111, 'Connection refused [simulated]')
        if fault == '404':
            fire('404')
            raise IOError('HTTP Error 404: Not Found')
        if fault == '500':
            fire('500')
            return _SimHttpResponse(500, b'internal server error', None)
        with core.unhooked():
            mt = int(core.R.stat(path).st_mtime)
        lm = core.R.strftime('%a, %d %b %Y %H:%M:%S GMT', core.R.gmtime(mt))
        if fault == 'nolm':
            fire('no-last-modified')
            lm = None
        if fault == 'cut':
            fire('cut-body')
            data = data[:len(data) // 2]
        else:
            w.event('http.open', host, name, 'ok:200')
        return _SimHttpResponse(200, data, lm)
    return urlopen


def build_real_world(t, scn, root):
    """Materialise the scenario on the scratch filesystem and return real components behind taps."""
    import os
    from pysmi.borrower.anyfile import AnyFileBorrower
    from pysmi.reader.localfile import FileReader
    from pysmi.searcher.anyfile import AnyFileSearcher
    from pysmi.searcher.stub import StubSearcher
    from pysmi.writer.localfile import FileWriter
    specs = scn['modules']
    dst = os.path.join(root, 'dst')
    sources, searchers, borrowers = [], [], []
    with core.unhooked():
        os.makedirs(dst)
        for i, s in enumerate(scn.get('sources', ())):
            d = os.path.join(root, 'src%d' % i)
            os.makedirs(d)
            base = s.get('base', 'all')
            for n, txt in basemibs.ALL_BASE.items():
                if base == 'all' or (isinstance(base, list) and n in base):
                    with open(os.path.join(d, n), 'w') as f:
                        f.write(txt)
                    os.utime(os.path.join(d, n), (s.get('mtime', core.EPOCH0), s.get('mtime', core.EPOCH0)))
            for name, h in sorted(s.get('holds', {}).items()):
                if h.get('o', 'ok') != 'ok':
                    continue
                mods = scn.get('files', {}).get(name, [name])
                parts = []
                for m in mods:
                    sp = dict(specs[m])
                    if h.get('variants', {}).get(m):
                        sp['variant'] = h['variants'][m]
                    parts.append(mibgen.render(sp, specs))
                fname = name
                if s.get('index') and not s.get('zip'):
                    # found only through the directory's .index file
                    fname = 'x-%s.dat' % name.lower()
                    if s.get('index') == 'path':
                        # the index names the file with a directory part
                        os.makedirs(os.path.join(d, 'vendor'), exist_ok=True)
                        fname = 'vendor/' + fname
                    with open(os.path.join(d, '.index'), 'a') as f:
                        f.write('%s %s\n' % (name, fname))
                if s.get('layout') == 'dirpermod' and fname == name and not s.get('zip'):
                    # one directory per module, named like the module: <src>/<NAME>/<NAME>.mib
                    os.makedirs(os.path.join(d, name), exist_ok=True)
                    fname = os.path.join(name, name + '.mib')
                with open(os.path.join(d, fname), 'w') as f:
                    f.write('\n'.join(parts))
                os.utime(os.path.join(d, fname), (s.get('mtime', core.EPOCH0), s.get('mtime', core.EPOCH0)))
            if s.get('http'):
                # the directory is the document root of a simulated web server; the reader is the real HttpReader
                from pysmi.reader.httpclient import HttpReader
                host = 'src%d.example' % i
                t.http_roots[host] = (d, s)
                rd = HttpReader(host, 80, '/mibs/@mib@')
            elif s.get('zip'):
                import zipfile
                from pysmi.reader.zipreader import ZipReader
                zp = os.path.join(root, 'src%d.zip' % i)
                with zipfile.ZipFile(zp, 'w', zipfile.ZIP_DEFLATED) as z:
                    for fn in sorted(os.listdir(d)):
                        z.write(os.path.join(d, fn), ('nested/' if s.get('zip') == 'sub' else '') + fn)
                rd = ZipReader(zp, ignoreErrors=not s.get('strict', False))
            else:
                rd = FileReader(d, ignoreErrors=not s.get('strict', False))
            sources.append(tap_instance(t, i, rd, 'src.getData'))
        for i, se in enumerate(scn.get('searchers', ())):
            if se.get('flavour') in ('stub', 'realstub'):
                searchers.append(tap_instance(t, i, StubSearcher(*[n for n, a in sorted(se.get('answers', {}).items()) if a == 'fresh']), 'searcher.fileExists'))
            else:
                for n, a in sorted(se.get('answers', {}).items()):
                    if a in ('fresh', 'stale'):
                        p = os.path.join(dst, n + '.json')
                        with open(p, 'w') as f:
                            f.write('{"old": "%s"}\n' % n)
                        tt = core.EPOCH0 + (10 if a == 'fresh' else -100000)
                        os.utime(p, (tt, tt))
                searchers.append(tap_instance(t, i, AnyFileSearcher(dst).setOptions(exts=['.json']), 'searcher.fileExists'))
        for i, b in enumerate(scn.get('borrowers', ())):
            d = os.path.join(root, 'bor%d' % i)
            os.makedirs(d)
            for n, o in sorted(b.get('holds', {}).items()):
                if o == 'ok':
                    with open(os.path.join(d, n + '.json'), 'w') as f:
                        f.write('{"borrowed": "%s", "from": %d}\n' % (n, i))
            br = make_borrower(t, i, b, FileReader(d)).setOptions(exts=['.json'])
            borrowers.append(tap_instance(t, i, br, 'borrower.getData'))
    writer = tap_instance(t, 0, FileWriter(dst).setOptions(suffix='.json'), 'writer.putData')
    return sources, searchers, borrowers, writer, dst


# --------------------------------------------------------------------------
def step_cap(scn):
    n = len(scn.get('modules', {})) + len(basemibs.ALL_BASE) + len(scn.get('requested', ()))
    k = len(scn.get('sources', ())) + len(scn.get('searchers', ())) + len(scn.get('borrowers', ())) + 1
    cap = 60 + 14 * n * k
    if scn.get('realfs'):
        cap *= 120    # every lookup through the real readers/searchers is dozens of stat/listdir events
    return cap


TEMPLATE_BODIES = {
    'valid': '{# custom #}{{ mib.meta.module }} has {{ mib | length }} entries\n',
    'syntax': '{% if mib %}never closed\n',
    'runtime': '{{ mib.meta.module }}: {{ mib.nothing.here.at.all }}\n',
    'include': '{{ mib.meta.module }}{% include "no-such-partial.j2" %}\n',
    'filter': '{{ mib.meta.module | nosuchfilter }}\n',
    # fails at render time for some modules only (those whose name starts with B or D)
    'runtime-some': '{% if mib.meta.module[0] in "BD" %}{{ mib.nothing.here.at.all }}{% endif %}ok {{ mib.meta.module }}\n',
}


def make_template(kind, codegen):
    """-> (value of the dstTemplate option, scratch directory to drop afterwards or None).  Custom templates are files in a
    scratch directory laid out so that the generators' loader finds them through an absolute path (the loader joins its search
    directory - the directory of the template - with the name it is given, i.e. with that same path)."""
    if kind == 'missing':
        return 'no-such-template-%s.j2' % codegen, None
    if kind == 'stock':
        return 'pysnmp/mib-definitions.j2' if codegen == 'pysnmp' else 'jsondoc/base.j2', None
    if kind == 'stock-other':
        return 'pysnmp/managed-objects-instances.j2' if codegen == 'pysnmp' else 'pysnmp/base.j2', None
    troot = core.new_root('tpl')
    d = os.path.join(troot, 't')
    nested = os.path.join(d, d.lstrip(os.sep))
    with core.unhooked():
        os.makedirs(nested)
        with open(os.path.join(nested, 'custom.j2'), 'w') as f:
            f.write(TEMPLATE_BODIES[kind])
    return os.path.join(d, 'custom.j2'), troot


def run_world(scn, root=None, writer=None, extra_setup=None):
    """Execute one compile() call; returns a Trace."""
    troot = None
    if scn.get('template'):
        scn = dict(scn)
        path, troot = make_template(scn['template'], scn.get('codegen', 'json'))
        scn['_dstTemplate'] = path
    try:
        return _run_world(scn, root, writer, extra_setup)
    finally:
        if troot:
            core.drop_root(troot)


def _run_world(scn, root=None, writer=None, extra_setup=None):
    import pysmi.compiler as pc
    from pysmi.borrower.anyfile import AnyFileBorrower
    w = core.World(root=root, faults=scn.get('faults', ()), rate=scn.get('rate'), step_cap=step_cap(scn),
                   clock=scn.get('clock', core.EPOCH0), listing_seed=scn.get('listing_seed'))
    t = Trace(scn, w)
    core.patch_pysmi()
    parser = TapParser(t, get_parser())
    codegen = TapCodegen(t, new_codegen(scn.get('codegen', 'json')))
    real = None
    if scn.get('realfs') and root is not None and writer is None:
        real = build_real_world(t, scn, root)
        t.dst = real[4]
    wr = writer if writer is not None else (real[3] if real else SimWriter(t, scn))
    saved = pc.SymtableCodeGen
    pc.SymtableCodeGen = make_symtab_tap(t)
    try:
        comp = pc.MibCompiler(parser, codegen, wr)
    finally:
        pc.SymtableCodeGen = saved
    t.compiler = comp
    t.writer = wr
    if real:
        comp.addSources(*real[0])
        comp.addSearchers(*real[1])
        comp.addBorrowers(*real[2])
    else:
        sims = [SimSource(t, i, s) for i, s in enumerate(t.scn.get('sources', ()))]
        t.sim_sources = sims
        if scn.get('callback_sources'):
            # the same outcome tables behind real CallbackReader objects that share one look-up function
            from pysmi.reader.callback import CallbackReader
            comp.addSources(*[tap_instance(t, i, CallbackReader(_shared_fetch, sm), 'src.getData') for i, sm in enumerate(sims)])
        else:
            comp.addSources(*sims)
        ses = []
        for i, s in enumerate(scn.get('searchers', ())):
            if s.get('flavour') == 'realstub':
                from pysmi.searcher.stub import StubSearcher
                ses.append(tap_instance(t, i, StubSearcher(*[n for n, a in sorted(s.get('answers', {}).items()) if a == 'fresh']), 'searcher.fileExists'))
            else:
                ses.append(SimSearcher(t, i, s))
        comp.addSearchers(*ses)
        comp.addBorrowers(*[tap_instance(t, i, make_borrower(t, i, b, SimBorrowReader(t, i, b)), 'borrower.getData')
                            for i, b in enumerate(scn.get('borrowers', ()))])
    if extra_setup is not None:
        extra_setup(comp, t)
    opts = {k: v for k, v in scn.get('options', {}).items() if k in OPTION_NAMES}
    if scn.get('_dstTemplate'):
        opts['dstTemplate'] = scn['_dstTemplate']
    first = t
    if t.http_roots:
        import pysmi.reader.httpclient as hc
        saved_urlopen = hc.urlopen
        hc.urlopen = sim_urlopen(t)
        try:
            with core.partitioned_network():
                with w:
                    _one_call(t, comp, w, 0, scn['requested'], opts)
        finally:
            hc.urlopen = saved_urlopen
        get_parser()
        return first
    with w:
        _one_call(t, comp, w, 0, scn['requested'], opts)
        sec = scn.get('second')
        if sec and not real and t.escaped is None:
            # a second compile() on the same long-lived compiler, after the sources changed
            first = copy.copy(t)
            first.scn = dict(t.scn, sources=copy.deepcopy(t.scn.get('sources', [])))    # what the sources held during the first call
            srcs = list(t.sim_sources)
            for i, names in sorted(sec.get('lose', {}).items()):
                if int(i) < len(srcs):
                    for n in names:
                        srcs[int(i)].spec['holds'].pop(n, None)
            for i, held in sorted(sec.get('gain', {}).items()):
                if int(i) < len(srcs):
                    srcs[int(i)].spec['holds'].update(copy.deepcopy(held))
            scn2 = dict(t.scn)
            if sec.get('respec'):
                mods2 = copy.deepcopy(scn2['modules'])
                for m_, chg in sorted(sec['respec'].items()):
                    if m_ in mods2:
                        mods2[m_].update(copy.deepcopy(chg))
                scn2['modules'] = mods2
            scn2['requested'] = list(sec.get('requested', scn['requested']))
            scn2['options'] = dict(sec.get('options', {}))
            scn2['sources'] = [s_.spec for s_ in srcs]
            t.scn = scn2
            t.calls = []
            t.R = None
            t.escaped = None
            t.lookup = None
            w.step_cap *= 2
            _one_call(t, comp, w, 1, scn2['requested'], {k: v for k, v in scn2['options'].items() if k in OPTION_NAMES})
            first.second = t
    get_parser()  # reset for the next world
    return first


def _one_call(t, comp, w, opn, requested, opts):
    w.begin_op(opn, 'compile')
    try:
        t.R = comp.compile(*requested, **opts)
        w.end_op('ok')
    except core.StepBudget as e:
        t.escaped = e
    except BaseException as e:  # noqa
        if isinstance(e, (core.WorldTimeout, KeyboardInterrupt)):
            raise
        t.escaped = e
        try:
            w.end_op('raise:%s' % type(e).__name__)
        except core.StepBudget:
            pass


def attempts_of(t):
    """The source attempts of one compile() call, from the recorded history: one record per getData call with the
    parse and symbol-table calls that followed it.  'ok' = text obtained, parsed to >= 1 module, every module of the
    file passed the symbol-table stage (only then are the file's modules taken)."""
    out = []
    for c in t.calls:
        if c.site == 'src.getData':
            out.append({'name': c.mib, 'src': c.comp, 'got': c.ok, 'ok': c.ok, 'mods': [], 'parse_calls': 0, 'exc': c.exc,
                        'info': c.res[0] if c.ok and isinstance(c.res, tuple) else None})
        elif c.site == 'parser.parse' and out:
            a = out[-1]
            a['parse_calls'] += 1
            a['ok'] = a['ok'] and c.ok and bool(c.res)
        elif c.site == 'symtab.genCode' and out:
            a = out[-1]
            a['ok'] = a['ok'] and c.ok
            if c.ok:
                a['mods'].append((c.mib, c.kw.get('ast'), c.res[0]))
    return out


def must_build(scn):
    """Ground truth from the scenario alone: the modules that every source holding them holds healthy, whose own text is
    healthy, and whose declared dependencies (transitively) are such modules or base modules.  Whatever else happens in
    the call, the code generator must succeed for these when it is asked.  Empty for worlds whose shape makes the
    prediction uncertain (injected errors, I/O faults, alias spellings, several modules per file, custom templates)."""
    if scn.get('inject') or scn.get('rate') or scn.get('faults') or scn.get('alias') or scn.get('files') or scn.get('template') or scn.get('realfs'):
        return set()
    srcs = scn.get('sources', ())
    if not any(s_.get('base', 'all') == 'all' for s_ in srcs):
        return set()
    specs = scn.get('modules', {})
    ok = set()
    for m, sp in specs.items():
        if sp.get('variant', 'ok') != 'ok' or sp.get('defval_sym'):
            continue
        hs_ = [s_['holds'][m] for s_ in srcs if m in s_.get('holds', {})]
        if not hs_ or any(h.get('o', 'ok') != 'ok' or h.get('variants') or 'text' in h for h in hs_):
            continue
        if any(specs.get(d, {}).get('rootname') for d in list(sp.get('imports', ())) + [sp.get(k_) for k_ in ('defval_dep', 'shadow_dep', 'enumuse')] if d and d != m):
            continue        # refers to the root node of a module that calls it something else
        ok.add(m)
    changed = True
    while changed:
        changed = False
        for m in sorted(ok):
            sp = specs[m]
            deps = set(sp.get('imports', ()))
            for k in ('defval_dep', 'shadow_dep', 'enumuse'):
                if sp.get(k) and (k != 'defval_dep' or sp.get('oiddefval')):
                    deps.add(sp[k])
            if any(d not in ok and d not in basemibs.ALL_BASE and d != m for d in deps):
                ok.discard(m)
                changed = True
    return ok


def status_digest(R):
    if R is None:
        return None
    out = {}
    for k in R:
        v = R[k]
        out[str(k)] = str(v)
    return out


def outcome(t, viol, nontrivial=None, extra_sig=None):
    """Common result record of a compile-sim world."""
    scn = t.scn
    w = t.world
    R = t.R
    statuses = sorted(set(str(v) for v in R.values())) if isinstance(R, dict) else ['<%s>' % type(t.escaped).__name__]
    opts = sorted(k for k, v in scn.get('options', {}).items() if v not in (None, False) and not (k == 'writeMibs' and v))
    if scn.get('options', {}).get('writeMibs') is False:
        opts.append('writeMibs=False')
    multiset = {}
    if isinstance(R, dict):
        for v in R.values():
            multiset[str(v)] = multiset.get(str(v), 0) + 1
    sig = json.dumps([sorted(multiset.items()), opts, sorted(w.fired), len(scn.get('sources', ())), len(scn.get('searchers', ())),
                      len(scn.get('borrowers', ())), extra_sig], sort_keys=True)
    fp, fph = w.fingerprints(extra=status_digest(R))
    comps = {}
    for c in t.calls + (t.second.calls if t.second is not None else []):
        comps[c.site] = comps.get(c.site, 0) + 1
    if t.second is not None:
        w.probe('second-compile-call-on-same-compiler')
        sig = json.dumps([sig, 'second', sorted(set(str(v) for v in t.second.R.values())) if isinstance(t.second.R, dict) else 'raised'])
    nm = len(scn.get('modules', {}))
    return {
        'violations': viol, 'sig': sig,
        'nontrivial': bool(w.fired) or nm >= 2 if nontrivial is None else nontrivial,
        'events': len(w.log), 'sim_s': w.simulated_seconds(), 'fired': dict(w.fired), 'probes': dict(w.probes),
        'fp': fp, 'fph': fph, 'comps': comps, 'statuses': status_digest(R),
    }


def describe(scn, out):
    d = {k: v for k, v in scn.items() if k not in ('_world',)}
    mods = d.get('modules')
    if mods:
        d = dict(d)
        d['modules'] = {n: {k: v for k, v in s.items() if k in ('imports', 'oidparent', 'variant', 'arc')} for n, s in mods.items()}
    return {'scenario': d, 'statuses': out.get('statuses'), 'faults_fired': out.get('fired'), 'events': out.get('events')}


# --------------------------------------------------------------------------
# world generation (shared; biased per property through `focus`)
# --------------------------------------------------------------------------
def gen_world(rng, tier, focus='C07'):
    nmax = 6 if tier == 'thorough' else 5
    n = rng.choice([1, 2, 2, 3, 3, 4, 5, nmax])
    pdef = {'C07': 0.22, 'C08': 0.10, 'C09': 0.25, 'C19': 0.35, 'C10': 0.08}.get(focus, 0.2)
    if rng.random() < 0.3:
        pdef = 0.0
    specs = mibgen.gen_modules(rng, n, cycles=True, defects=pdef, smiv1=0.1, oiddefval=0.2, shadow=0.1)
    names = list(specs)
    scn = {'modules': specs, 'codegen': rng.choice(['pysnmp', 'pysnmp', 'null']) if rng.random() < 0.06 else 'json', 'files': {}}
    # several modules in one file
    if n >= 2 and rng.random() < 0.18:
        k_ = 3 if n >= 3 and rng.random() < 0.4 else 2
        grp = rng.sample(names, k_)
        a = grp[0]
        rng.shuffle(grp)                     # the module the file is named after need not come first
        scn['files'][a] = grp
        co = [x for x in grp if x != a and rng.random() < 0.5]
        if co:
            scn['co_only'] = co              # these have no file of their own
    # requested names
    k = rng.choice([1, 1, 1, 2, 3])
    req = [rng.choice(names) for _ in range(k)]
    if rng.random() < 0.07:
        req.append('NO-SUCH-MIB')
    if rng.random() < 0.05:
        req.append(req[0])
    scn['requested'] = req
    if rng.random() < 0.12:
        # a module kept in a file named unlike it (e.g. vendor-mib holding VENDOR-MIB) and requested by that file name
        m_ = rng.choice(names)
        if m_ not in scn['files'] and all(m_ not in v for v in scn['files'].values()):
            alias = m_.lower().replace('-mib', '') + '-file'
            scn['files'][alias] = [m_]
            scn['file_alias'] = {alias: m_}
            scn['requested'] = [alias if x == m_ else x for x in req]
            if alias not in scn['requested']:
                scn['requested'].append(alias)
    # sources
    ns = rng.choice([1, 1, 2, 2, 3])
    sources = [{'holds': {}, 'base': 'none', 'mtime': core.EPOCH0 - rng.choice([0, 1, 50, 5000])} for _ in range(ns)]
    for s_ in sources:
        if rng.random() < 0.06:
            s_['mtime'] = rng.choice([0, 0, 1])       # stamped with the Epoch itself (normalised archives, reproducible builds)
    for name in names + sorted(scn.get('file_alias', {})):
        if name in scn.get('co_only', ()):
            continue
        if name in scn.get('file_alias', {}).values():
            continue        # lives only in its alias file
        holders = [i for i in range(ns) if rng.random() < 0.6]
        if not holders and rng.random() < 0.85:
            holders = [rng.randrange(ns)]
        for i in holders:
            r = rng.random()
            if r < 0.76:
                h = {'o': 'ok'}
            elif r < 0.86:
                h = {'o': 'error'}
            else:
                h = {'o': 'ok', 'variants': {scn.get('file_alias', {}).get(name, name): rng.choice(mibgen.DEFECTS)}}
            sources[i]['holds'][name] = h
    r = rng.random()
    if r < 0.80:
        sources[-1]['base'] = 'all'
    elif r < 0.92:
        for s in sources:
            s['base'] = 'all'
    elif r < 0.97:
        sources[-1]['base'] = sorted(rng.sample(sorted(basemibs.ALL_BASE), rng.randrange(1, len(basemibs.ALL_BASE))))
    scn['sources'] = sources
    # searchers
    nse = rng.choice([0, 0, 1, 1, 2, 3]) if focus != 'C10' else rng.choice([0, 1, 2, 2, 3])
    searchers = []
    allnames = names + list(basemibs.BASE_NAMES)
    for i in range(nse):
        fl = rng.choice(['file', 'file', 'stub', 'realstub'])
        pf = rng.choice([0.1, 0.3, 0.6]) if focus == 'C10' else 0.15
        ans = {}
        for m in allnames:
            r = rng.random()
            if r < pf:
                ans[m] = 'fresh'
            elif r < pf + 0.1 and fl != 'realstub':
                ans[m] = 'error'
        if fl == 'realstub' and rng.random() < 0.3:
            ans = {'Q-' + rng.choice(names): 'fresh'}     # exactly one listed name, of which a real module name is a substring
        searchers.append({'flavour': fl, 'answers': ans})
        if focus in ('C19', 'C10') and rng.random() < 0.3:
            # a searcher that compares time stamps: its stored copies may be newer than a borrower's copy yet older than the source
            searchers[-1] = {'flavour': 'age', 'answers': {}, 'have': dict((m, core.EPOCH0 - rng.choice([5, 100, 7000, 20000])) for m in allnames if rng.random() < 0.5)}
    scn['searchers'] = searchers
    # borrowers
    nb = rng.choice([0, 0, 0, 1, 2, 3]) if focus not in ('C19',) else rng.choice([1, 2, 2, 3])
    borrowers = []
    for i in range(nb):
        holds = {}
        for m in allnames + ['NO-SUCH-MIB']:
            r = rng.random()
            if r < 0.5:
                holds[m] = 'ok'
            elif r < 0.6:
                holds[m] = 'error'
        borrowers.append({'genTexts': rng.random() < 0.5, 'holds': holds, 'mtime': core.EPOCH0 - rng.choice([0, 10, 10000])})
        if rng.random() < 0.3:
            borrowers[-1]['late_flavour'] = True      # flavour set through setOptions() after construction
    scn['borrowers'] = borrowers
    if rng.random() < 0.1:
        scn['writer_fail'] = [rng.choice(allnames)]
    # injected package errors at the taps
    if rng.random() < 0.3:
        inj = []
        for _ in range(rng.choice([1, 1, 2])):
            site = rng.choice(sorted(SITE_ERR))
            inj.append({'site': site, 'nth': rng.choice([0, 0, 1, 2, 3, 5]), 'cls': rng.choice(SITE_ERR[site])})
        scn['inject'] = inj
    opts = {}
    for name, p in (('noDeps', .2), ('rebuild', .2), ('dryRun', .1), ('genTexts', .3), ('ignoreErrors', .4)):
        if rng.random() < p:
            opts[name] = True
    if rng.random() < 0.1:
        opts['writeMibs'] = False
    scn['options'] = opts
    if rng.random() < 0.07:
        # a user-supplied output template (the dstTemplate option): healthy, another stock template, missing, or broken
        # in one of the ways a template can be broken - a configuration input that can be absent or damaged like any file
        scn['template'] = rng.choice(['valid', 'stock', 'stock-other', 'missing', 'syntax', 'runtime', 'runtime-some', 'runtime-some', 'include', 'filter'])
    if rng.random() < 0.15:
        # second compile() call on the same compiler object after the sources changed
        gain, lose = {}, {}
        for name in names:
            if rng.random() < 0.4:
                i = rng.randrange(ns)
                if name in sources[i]['holds']:
                    lose.setdefault(str(i), []).append(name)
                else:
                    gain.setdefault(str(i), {})[name] = {'o': 'ok'}
        o2 = {}
        for nm, p_ in (('noDeps', .15), ('rebuild', .2), ('genTexts', .2), ('ignoreErrors', .4)):
            if rng.random() < p_:
                o2[nm] = True
        scn['second'] = {'requested': list(req) if rng.random() < 0.6 else [rng.choice(names)], 'options': o2, 'gain': gain, 'lose': lose}
        if rng.random() < 0.5 and len(names) >= 2:
            # a module's text changes between the calls (new import, other objects) while its source keeps the mtime
            m_ = rng.choice(names)
            others = [x for x in names if x != m_ and x not in specs[m_]['imports']]
            chg = {'arcs': sorted(set(specs[m_]['arcs'] + [77])), 'nobj': len(set(specs[m_]['arcs'] + [77]))}
            if others:
                chg['imports'] = specs[m_]['imports'] + [rng.choice(others)]
            scn['second']['respec'] = {m_: chg}
            parents_ = sorted(set(specs[x]['oidparent'] for x in names if specs[x].get('oidparent') in names and specs[x].get('variant', 'ok') == 'ok'))
            if parents_ and rng.random() < 0.4:
                # a dependency is replaced by a release that calls its root node something else: the unchanged modules
                # that hang their objects below that node cannot be generated any more
                d_ = rng.choice(parents_)
                scn['second']['respec'] = {d_: {'rootname': mibgen.sym(d_) + 'Trunk'}}
            if rng.random() < 0.7:
                scn['second']['options']['rebuild'] = True
    if rng.random() < 0.12 and not scn.get('file_alias'):
        scn['callback_sources'] = True     # real CallbackReader objects around one shared look-up function
    if focus in ('C07', 'C08') and not scn.get('callback_sources') and rng.random() < 0.12:
        # names spelled in another case in IMPORTS; sources resolve them like the file readers do and report the
        # matching variant as alias
        scn['alias'] = True
        for s_ in scn['sources']:
            s_['casefold'] = True
        for m, sp in specs.items():
            for d_ in sp['imports']:
                if rng.random() < 0.6:
                    sp.setdefault('spell', {})[d_] = d_.title() if rng.random() < 0.7 else d_.lower()
    elif focus in ('C07', 'C08', 'C09') and rng.random() < 0.15:
        # the same scenario over the real FileReader / AnyFileSearcher / AnyFileBorrower / FileWriter on the
        # interposed filesystem; component failures then come from injected errno instead of outcome tables
        scn['realfs'] = True
        scn.pop('callback_sources', None)
        scn.pop('second', None)
        scn.pop('inject', None)
        scn.pop('writer_fail', None)
        scn['codegen'] = 'json'
        scn['files'] = {k: v for k, v in scn['files'].items() if k in scn.get('file_alias', {})}
        scn.pop('co_only', None)
        scn['listing_seed'] = rng.randrange(1 << 30)
        for s_ in scn['sources']:
            s_['strict'] = rng.random() < 0.5
            if rng.random() < 0.2:
                s_['index'] = rng.choice([True, True, 'path'])
            elif rng.random() < 0.15:
                s_['layout'] = 'dirpermod'
            elif rng.random() < 0.2:
                s_['http'] = True            # served by a simulated web server through the real HttpReader
                net = {}
                for nm_ in sorted(s_['holds']):
                    if rng.random() < 0.25:
                        net[nm_] = rng.choice(['refuse', '404', '500', 'cut', 'nolm'])
                if net:
                    s_['net'] = net
            elif rng.random() < 0.3:
                s_['zip'] = rng.choice([True, 'sub'])
                if s_.get('mtime', core.EPOCH0) < 400000000:
                    s_['mtime'] = core.EPOCH0 - 5000      # ZIP time stamps start in 1980
        if rng.random() < 0.15:
            scn['debug'] = True
        if rng.random() < 0.6:
            scn['rate'] = {'p': rng.choice([0.01, 0.03, 0.1]), 'seed': rng.randrange(1 << 30), 'actions': ['errno', 'short'],
                           'sites': sorted(rng.sample(['os.stat', 'os.listdir', 'open', 'file.read', 'mkstemp', 'os.write', 'os.close', 'os.rename'], rng.randrange(2, 8)))}
    return scn


def shrink_world(scn):
    """Generic candidate edits for compile-sim scenarios."""
    if scn.get('rate'):
        s = copy.deepcopy(scn)
        s.pop('rate')
        yield s
    if scn.get('template'):
        s = copy.deepcopy(scn)
        s.pop('template')
        yield s
    if scn.get('second'):
        s = copy.deepcopy(scn)
        s.pop('second')
        yield s
        for k2 in ('gain', 'lose'):
            for i in sorted(scn['second'].get(k2, {})):
                s = copy.deepcopy(scn)
                del s['second'][k2][i]
                yield s
        for k2 in sorted(scn['second'].get('options', {})):
            s = copy.deepcopy(scn)
            del s['second']['options'][k2]
            yield s
        if scn['second'].get('respec'):
            s = copy.deepcopy(scn)
            s['second'].pop('respec')
            yield s
    for key in ('inject', 'writer_fail'):
        for i in range(len(scn.get(key, []))):
            s = copy.deepcopy(scn)
            del s[key][i]
            yield s
    for key in ('borrowers', 'searchers'):
        for i in range(len(scn.get(key, []))):
            s = copy.deepcopy(scn)
            del s[key][i]
            yield s
    if len(scn.get('sources', [])) > 1:
        for i in range(len(scn['sources'])):
            s = copy.deepcopy(scn)
            del s['sources'][i]
            yield s
    for k in sorted(scn.get('options', {})):
        s = copy.deepcopy(scn)
        del s['options'][k]
        yield s
    if len(scn.get('requested', [])) > 1:
        for i in range(len(scn['requested'])):
            s = copy.deepcopy(scn)
            del s['requested'][i]
            yield s
    # drop a module and every reference to it
    for m in sorted(scn.get('modules', {})):
        if len(scn['modules']) <= 1:
            break
        s = copy.deepcopy(scn)
        del s['modules'][m]
        for sp in s['modules'].values():
            sp['imports'] = [x for x in sp['imports'] if x != m]
            if sp.get('oidparent') == m:
                sp['oidparent'] = None
        s['requested'] = [x for x in s['requested'] if x != m] or [sorted(s['modules'])[0]]
        for src in s['sources']:
            src['holds'].pop(m, None)
        for f in list(s.get('files', {})):
            if f == m:
                del s['files'][f]
            else:
                s['files'][f] = [x for x in s['files'][f] if x != m]
        if 'co_only' in s:
            s['co_only'] = [x for x in s['co_only'] if x != m]
        yield s
    # heal a module / a source copy
    for m, sp in sorted(scn.get('modules', {}).items()):
        if sp.get('variant', 'ok') != 'ok':
            s = copy.deepcopy(scn)
            s['modules'][m]['variant'] = 'ok'
            yield s
        if sp.get('imports'):
            for d in sp['imports']:
                s = copy.deepcopy(scn)
                s['modules'][m]['imports'] = [x for x in sp['imports'] if x != d]
                if s['modules'][m].get('oidparent') == d:
                    s['modules'][m]['oidparent'] = None
                yield s
        for fld in ('compliance', 'identity', 'smiv1'):
            if sp.get(fld):
                s = copy.deepcopy(scn)
                s['modules'][m][fld] = False
                yield s
        if sp.get('arcs'):
            s = copy.deepcopy(scn)
            s['modules'][m]['arcs'] = []
            s['modules'][m]['nobj'] = 0
            yield s
    for i, src in enumerate(scn.get('sources', [])):
        for name, h in sorted(src.get('holds', {}).items()):
            if h.get('o') != 'ok' or h.get('variants'):
                s = copy.deepcopy(scn)
                s['sources'][i]['holds'][name] = {'o': 'ok'}
                yield s
            s = copy.deepcopy(scn)
            del s['sources'][i]['holds'][name]
            yield s
    for key, field in (('searchers', 'answers'), ('borrowers', 'holds')):
        for i, c in enumerate(scn.get(key, [])):
            for name in sorted(c.get(field, {})):
                s = copy.deepcopy(scn)
                del s[key][i][field][name]
                yield s
    if scn.get('codegen') == 'pysnmp':
        s = copy.deepcopy(scn)
        s['codegen'] = 'json'
        yield s


def size(scn):
    return {'modules': len(scn.get('modules', {})), 'sources': len(scn.get('sources', [])), 'searchers': len(scn.get('searchers', [])),
            'borrowers': len(scn.get('borrowers', [])), 'injected': len(scn.get('inject', [])), 'options': sorted(scn.get('options', {}))}


# --------------------------------------------------------------------------
# C13 dry-run worlds: compile() with the real FileWriter, dryRun / writeMibs=False
# --------------------------------------------------------------------------
def gen_dry_world(rng, tier):
    scn = gen_world(rng, tier, focus='C07')
    scn['mode'] = 'compile'
    scn.pop('second', None)
    scn.pop('inject', None)
    scn.pop('writer_fail', None)
    scn['realwriter'] = rng.choice(['file', 'filejson', 'py'])
    scn['options'].pop('dryRun', None)
    scn['options'].pop('writeMibs', None)
    scn['options']['ignoreErrors'] = True
    if rng.random() < 0.5:
        scn['options']['dryRun'] = True
    else:
        scn['options']['writeMibs'] = False
    scn['dest'] = rng.choice(['missing', 'empty', 'populated'])
    scn['index'] = rng.random() < 0.4
    if scn['index'] and scn['dest'] != 'missing':
        # an index document left by earlier runs: healthy, cut short, not JSON at all, JSON of the wrong shape
        scn['old_index'] = rng.choice(['valid', 'truncated', 'garbage', 'list', None])
    return scn


def run_dry_world(scn, prop):
    from verif.checks import c13
    root = core.new_root('dry')
    viol = []
    try:
        dest = os.path.join(root, 'dst')
        with core.unhooked():
            if scn['dest'] != 'missing':
                os.makedirs(dest)
            if scn['dest'] == 'populated':
                for n in sorted(scn['modules']) + list(basemibs.BASE_NAMES):
                    for sfx in ('', '.json', '.py'):
                        with open(os.path.join(dest, n + sfx), 'w') as f:
                            f.write('previous %s%s\n' % (n, sfx))
                    # left-over bytecode in the legacy location: foreign magic / truncated header
                    with open(os.path.join(dest, n + '.pyc'), 'wb') as f:
                        f.write(b'\x03\xf3\r\n\x00\x00\x00\x00' if len(n) % 2 else b'\x00\x01')
            if scn['dest'] == 'populated':
                # temporary files left behind by an interrupted earlier run, days old and fresh
                for fn_, age_ in (('tmpk3w9x_2a', 3 * 86400), ('tmpzz81ab3c', 40 * 86400), ('tmp0a1b2c3d', 5)):
                    with open(os.path.join(dest, fn_), 'w') as f:
                        f.write('half-written output of an interrupted run\n')
                    os.utime(os.path.join(dest, fn_), (core.EPOCH0 - age_, core.EPOCH0 - age_))
            if scn.get('old_index') and scn['dest'] != 'missing':
                doc = json.dumps({'compliance': {}, 'enterprise': {'1.3.6.1.4.1.9': ['OLD-MIB']}, 'identity': {'1.3.6.1.4.1.9.1': ['OLD-MIB']}, 'meta': {}, 'oids': {'1.3.6.1.4.1.9': ['OLD-MIB']}}, indent=2)
                body = {'valid': doc, 'truncated': doc[:len(doc) // 2], 'garbage': 'this is not an index @@@\n', 'list': '[1, 2, 3]\n'}[scn['old_index']]
                for sfx in ('', '.json', '.py'):
                    with open(os.path.join(dest, 'index' + sfx), 'w') as f:
                        f.write(body)
        before = core.snapshot(root)
        writer, _ = c13.writer_for(scn['realwriter'], dest)

        def real_searchers(comp, t_):
            # the real file searchers look at the destination too (as mibdump sets them up)
            from pysmi.searcher import AnyFileSearcher, PyFileSearcher
            comp._searchers[:0] = [PyFileSearcher(dest), AnyFileSearcher(dest).setOptions(exts=['.json'])]
        t = run_world(scn, root=root, writer=writer, extra_setup=real_searchers if scn.get('real_searchers', True) else None)
        w = t.world
        if t.escaped is None and scn.get('index') and scn['options'].get('dryRun') and scn.get('codegen', 'json') == 'json':
            with w:
                w.begin_op(1, 'buildIndex')
                try:
                    t.compiler.buildIndex(t.R, dryRun=True, ignoreErrors=True)
                except BaseException as e:  # noqa
                    t.escaped = e
                w.end_op()
        after = core.snapshot(root)
        if after != before or w.mutations:
            what = 'dryRun' if scn['options'].get('dryRun') else 'writeMibs=False'
            viol.append({'clause': 'C13.6-dryrun', 'key': 'C13.6-dryrun|compile|%s' % what,
                         'facts': {'what': 'compile', 'mode': what, 'writer': scn['realwriter'], 'mutating_calls': w.mutations},
                         'message': 'compile(%s) modified the filesystem (%d mutating calls; %d entries changed)' % (
                             what, w.mutations, len(set(after.items()) ^ set(before.items())))})
        if t.escaped is not None and not isinstance(t.escaped, core.StepBudget):
            w.probe('dry-world-compile-raised')
        out = outcome(t, viol, extra_sig=['dry', scn['realwriter'], scn['dest']])
        out['comps']['writer.putData(real)'] = sum(1 for c in t.calls if c.site == 'codegen.genCode' and c.ok)
        return out
    finally:
        core.drop_root(root)


def shrink_dry_world(scn):
    for s in shrink_world(scn):
        yield s
