"""history-sim: long-lived parser / MibCompiler (with its internal symbol
table builder) / code generator objects driven through an operation history;
every operation is also executed on objects created for it alone.  The same
history can be executed in child interpreters started with other hash seeds
(verif/child.py); per-operation observable digests are compared."""
import hashlib
import json

from verif.gen import basemibs, corpus, mibgen
from verif.sim import core

DIALECTS = ['smiV1Relaxed', 'smiV2', 'smiV1']

BAD_TEXTS = {
    'lex-initial': 'AAA-MIB DEFINITIONS ::= BEGIN\n\n\n  @ oops\nEND\n',
    'lex-macro': 'AAA-MIB DEFINITIONS ::= BEGIN\n\nOBJECT-TYPE MACRO ::=\nBEGIN\n   TYPE NOTATION ::= "x"\n   never closed\n',
    'eof-exports': 'AAA-MIB DEFINITIONS ::= BEGIN\nEXPORTS a,\n  b,\n  c\n',
    'eof-choice': 'AAA-MIB DEFINITIONS ::= BEGIN\nXx ::= CHOICE {\n   a INTEGER,\n',
    'eof-comment': 'AAA-MIB DEFINITIONS ::= BEGIN\nx OBJECT IDENTIFIER ::= { y 1 }\n-- comment to the end',
    'grammar': 'AAA-MIB DEFINITIONS ::= BEGIN\n\n\n\n\nx OBJECT IDENTIFIER { y 1 }\nEND\n',
    'grammar-late': '\n' * 40 + 'AAA-MIB DEFINITIONS ::= BEGIN\nx OBJECT IDENTIFIER ::= y 1 }\nEND\n',
    'forbidden': 'AAA-MIB DEFINITIONS ::= BEGIN\n\nx OBJECT IDENTIFIER ::= { TRUE 1 }\nEND\n',
    'bignum': 'AAA-MIB DEFINITIONS ::= BEGIN\nx OBJECT IDENTIFIER ::= { y 99999999999999999999999999 }\nEND\n',
    'cut': 'AAA-MIB DEFINITIONS ::= BEGIN\nx OBJECT IDENTIFIER ::= { y 1 }\n\n\nz OBJECT IDENTIFIER ::= { x',
    # failures before any module header is complete: what a wrong download looks like
    'no-header-illegal': '<html><body>404 Not Found</body></html>\n',
    'no-header-lower': 'all: build\n\tcc -o x x.c\n',
    'name-only': '\n\nAAA-MIB\n',
    # no line feed anywhere before the place where the lexer stops
    'cr-only-error': 'AAA-MIB DEFINITIONS ::= BEGIN\r\rx OBJECT IDENTIFIER ::= { y 1 }\r@ oops\rEND\r',
    'one-line-comment': '-- just a comment, no line break after it',
    'multiline-string-then-error': 'AAA-MIB DEFINITIONS ::= BEGIN\nx OBJECT-TYPE SYNTAX INTEGER MAX-ACCESS read-only STATUS current DESCRIPTION "a\nb\nc\nd" ::= { y 1 }\n@\nEND\n',
}


def sha(x):
    if not isinstance(x, (bytes, str)):
        x = json.dumps(x, sort_keys=True, default=repr)
    if isinstance(x, str):
        x = x.encode('utf-8', 'replace')
    return hashlib.sha1(x).hexdigest()[:16]


def exc_obs(e):
    return ['EXC', type(e).__name__, str(getattr(e, 'msg', e)), getattr(e, 'lineno', None) if hasattr(e, 'lineno') else None]


def status_obs(v):
    d = {'s': str(v)}
    for k in ('oid', 'identity', 'revision', 'enterprise', 'alias', 'file'):
        if hasattr(v, k):
            d[k] = getattr(v, k)
    if hasattr(v, 'oids'):
        d['oids'] = sorted(v.oids)
    if hasattr(v, 'compliance'):
        d['compliance'] = list(v.compliance)
    if hasattr(v, 'error'):
        e = v.error
        d['error'] = [type(e).__name__, str(getattr(e, 'msg', e)), getattr(e, 'lineno', None)]
    return d


_tabmod = []


class fast_tables(object):
    """While active, `import pysmi.parser.parsetab` succeeds and yields LALR tables written by PLY itself for the
    smiV1Relaxed grammar (PLY checks the grammar signature and recomputes for any other grammar)."""

    def __enter__(self):
        import sys
        if not _tabmod:
            import importlib.util
            import os
            from pysmi.parser import dialect
            from pysmi.parser.smi import parserFactory
            d = core.new_root('ptab')
            m = None
            try:
                with core.unhooked():
                    parserFactory(**dialect.smiV1Relaxed)(tempdir=d)
                    path = os.path.join(d, 'mibFile', 'parsetab.py')
                    spec = importlib.util.spec_from_file_location('pysmi.parser.parsetab', path)
                    m = importlib.util.module_from_spec(spec)
                    spec.loader.exec_module(m)
            except Exception:   # noqa - the tree under test does not write its tables that way: take the ordinary path
                m = None
            core.drop_root(d)
            _tabmod.append(m)
        if _tabmod[0] is not None:
            sys.modules['pysmi.parser.parsetab'] = _tabmod[0]

    def __exit__(self, *a):
        import sys
        sys.modules.pop('pysmi.parser.parsetab', None)
        return False


class Instances(object):
    """One set of pysmi objects (long-lived, or made for one operation)."""

    def __init__(self):
        self.parsers = {}
        self.compilers = {}
        self.texts = {}
        self.written = {}
        self.readers = {}
        self.roots = []
        self.fs = {}            # fs histories: root, compiler with real components, mutations so far
        self.is_fresh = False
        self.cache_dir = None

    def close(self):
        for r in self.roots:
            core.drop_root(r)
        self.roots = []

    def parser(self, d):
        if d not in self.parsers:
            # the classes the package exports for the three dialects (what applications and the scripts instantiate)
            import importlib
            mod, cls = {'smiV2': ('pysmi.parser.smiv2', 'SmiV2Parser'), 'smiV1': ('pysmi.parser.smiv1', 'SmiV1Parser'),
                        'smiV1Relaxed': ('pysmi.parser.smiv1compat', 'SmiV1CompatParser')}[d]
            klass = getattr(importlib.import_module(mod), cls)
            if self.is_fresh:
                # reference objects only: PLY loads the LALR tables of the default dialect from a table module
                # generated once per process instead of recomputing them (2 ms instead of 160 ms per parser)
                with fast_tables():
                    self.parsers[d] = klass()
            elif self.cache_dir:
                # as the scripts do: a grammar-table cache directory, here one shared by the parsers of all dialects
                self.parsers[d] = klass(tempdir=self.cache_dir)
            else:
                self.parsers[d] = klass()
        return self.parsers[d]

    def compiler(self, kind, d='smiV1Relaxed'):
        key = (kind, d)
        if key not in self.compilers:
            from pysmi.codegen import JsonCodeGen, PySnmpCodeGen
            from pysmi.compiler import MibCompiler
            from pysmi.reader.callback import CallbackReader
            from pysmi.writer.callback import CallbackWriter
            cg = JsonCodeGen() if kind == 'json' else PySnmpCodeGen()
            c = MibCompiler(self.parser(d), cg, CallbackWriter(lambda n, data, ctx: self.written.__setitem__(n, data)))
            c.addSources(CallbackReader(lambda n, ctx: self.texts.get(n)))
            self.compilers[key] = (c, cg)
        return self.compilers[key]


def op_text(op, tier='quick'):
    if op.get('bad'):
        return BAD_TEXTS[op['bad']]
    fl = corpus.corpus('thorough')
    text = fl[op['file'] % len(fl)].text
    if op.get('tail') == 'comment':
        # a valid file whose last line is a comment without a line break: the lexer ends in its comment state
        text = text.rstrip('\r\n') + '  -- the end, no line break after this'
    elif op.get('tail') == 'first-line':
        # real tokens on the very first line
        text = text.lstrip()
        if text.startswith('--'):
            text = text.split('\n', 1)[1].lstrip()
    return text


READ_TREE = {
    'FOO-MIB': 'FOO-MIB DEFINITIONS ::= BEGIN\n-- spelled as given, no extension\nEND\n',
    'foo-mib.txt': 'FOO-MIB DEFINITIONS ::= BEGIN\n-- lower case with .txt\nEND\n',
    'FOO-MIB.mib': 'FOO-MIB DEFINITIONS ::= BEGIN\n-- upper case with .mib\nEND\n',
    'sub/FOO-MIB.my': 'FOO-MIB DEFINITIONS ::= BEGIN\n-- in a sub-directory\nEND\n',
    'foo.txt': 'FOO DEFINITIONS ::= BEGIN\n-- fuzzy: -mib removed\nEND\n',
    'BAR': 'BAR DEFINITIONS ::= BEGIN\nEND\n',
    'bar-mib.mib': 'BAR-MIB DEFINITIONS ::= BEGIN\nEND\n',
}


def execute(inst, op, results, world=None):
    """-> observable (JSON-able) of one operation on the given instances."""
    from pysmi import error
    kind = op['op']
    if kind == 'fsc':
        from verif.engines import fs_history
        return fs_history.execute(inst, op, results, world)
    if kind == 'parse':
        p = inst.parser(op.get('dialect', 'smiV1Relaxed'))
        try:
            trees = p.parse(op_text(op))
            return ['TREES', sha(repr(trees)), len(trees)]
        except error.PySmiError as e:
            return exc_obs(e)
        except Exception as e:  # noqa
            return ['FOREIGN'] + exc_obs(e)[1:]
    if kind == 'compile':
        c, cg = inst.compiler(op.get('codegen', 'json'))
        specs = op.get('modules', {})
        inst.texts.clear()
        inst.texts.update(basemibs.ALL_BASE)
        for n, sp in specs.items():
            inst.texts[n] = mibgen.render(sp, specs)
        for cname in op.get('corpus', ()):
            mname, mtext = corpus.CORPUS_MODULES[cname]()
            inst.texts[mname] = mtext
        for n in op.get('absent', ()):
            inst.texts.pop(n, None)
        inst.written.clear()
        copts = dict(op.get('options', {}))
        if copts.pop('keepLayout', None):
            copts['textFilter'] = lambda symbol, text: text
        try:
            R = c.compile(*op['requested'], **copts)
        except error.PySmiError as e:
            return exc_obs(e)
        except Exception as e:  # noqa
            return ['FOREIGN'] + exc_obs(e)[1:]
        results.append(R)
        obs = {'status': dict((k, status_obs(v)) for k, v in sorted(R.items())),
               'written': dict((k, sha(v)) for k, v in sorted(inst.written.items()))}
        if op.get('codegen', 'json') == 'json' and op.get('solo'):
            # the same texts without the comment header (who produced the file, when, from where)
            obs['written_nc'] = dict((k, sha(_without_comments(v))) for k, v in sorted(inst.written.items()))
        if op.get('keep_text'):
            obs['text'] = dict((k, v) for k, v in sorted(inst.written.items()) if k in specs)
        return obs
    if kind == 'read':
        # which of several differently spelled candidate files a directory reader picks
        import os
        from pysmi.reader.localfile import FileReader
        key = json.dumps([sorted(op.get('omit', ())), sorted(op.get('ropts', {}).items())])
        if key not in inst.readers:
            # one reader object per (tree, options) for the life of this set of instances
            root = core.new_root('hread')
            inst.roots.append(root)
            with core.unhooked():
                for rel, txt in sorted(READ_TREE.items()):
                    if rel in op.get('omit', ()):
                        continue
                    pth = os.path.join(root, rel)
                    os.makedirs(os.path.dirname(pth), exist_ok=True)
                    with open(pth, 'w') as f:
                        f.write(txt)
                    os.utime(pth, (core.EPOCH0 - 500, core.EPOCH0 - 500))
            inst.readers[key] = FileReader(root).setOptions(**op.get('ropts', {}))
        try:
            info, text = inst.readers[key].getData(op['name'])
            return ['READ', info.file, info.name, sha(text)]
        except error.PySmiError as e:
            return exc_obs(e)[:2] + ['reader']
        except Exception as e:  # noqa
            return ['FOREIGN'] + exc_obs(e)[1:2]
    if kind == 'index':
        c, cg = inst.compiler('json')
        R = op.get('_results')
        if R is None:
            return ['NO-RESULTS']
        try:
            txt = cg.genIndex(R, comments=['c'])
            return ['INDEX', sha(txt), txt if op.get('keep_text') else None]
        except error.PySmiError as e:
            return exc_obs(e)
        except Exception as e:  # noqa
            return ['FOREIGN'] + exc_obs(e)[1:]
    raise ValueError(kind)


_fresh_cache = {}


def _without_comments(text):
    try:
        doc = json.loads(text, object_pairs_hook=list)
    except ValueError:
        return text
    return json.dumps([[k, ([[k2, v2] for k2, v2 in v if k2 != 'comments'] if k == 'meta' and isinstance(v, list) else v)] for k, v in doc])


def per_module_reference(op, obs):
    """Every module the call wrote, produced once more with a parser, a symbol-table builder and a code generator made
    for that module alone (symbol tables built in the order the call reported the modules): what compile() wrote must not
    depend on its builder and generator objects having served the other modules of the call.  -> {module: [sha, sha]}"""
    import sys
    import time
    from pysmi import error
    from pysmi.codegen import JsonCodeGen
    from pysmi.codegen.symtable import SymtableCodeGen
    from pysmi.compiler import MibCompiler, packageName, packageVersion
    specs = op.get('modules', {})
    texts = dict(basemibs.ALL_BASE)
    for n, sp in specs.items():
        texts[n] = mibgen.render(sp, specs)
    for cname in op.get('corpus', ()):
        mname, mtext = corpus.CORPUS_MODULES[cname]()
        texts[mname] = mtext
    for n in op.get('absent', ()):
        texts.pop(n, None)
    inst = Instances()
    inst.is_fresh = True
    out = {}
    try:
        trees, stmap = {}, {}
        for n in obs['status']:
            if n in texts and obs['status'][n]['s'] in ('compiled', 'untouched', 'unprocessed', 'failed'):
                try:
                    for tree in inst.parser('smiV1Relaxed').parse(texts[n]):
                        mi, st = SymtableCodeGen().genCode(tree, stmap)
                        stmap[mi.name] = st
                        trees[mi.name] = tree
                except error.PySmiError:
                    continue
        c0 = MibCompiler(None, None, None)
        platform_info, user_info = c0._get_system_info()
        opts = op.get('options', {})
        for n in sorted(obs['written']):
            if n not in trees or n in basemibs.ALL_BASE:
                continue
            comments = ['ASN.1 source file:///dev/stdin', 'Produced by %s-%s at %s' % (packageName, packageVersion, time.asctime()),
                        'On host %s platform %s version %s by user %s' % (platform_info[1], platform_info[0], platform_info[2], user_info[0]),
                        'Using Python version %s' % sys.version.split('\n')[0]]
            try:
                mi, text = JsonCodeGen().genCode(trees[n], stmap, comments=comments, dstTemplate=None, genTexts=opts.get('genTexts'), textFilter=None)
            except error.PySmiError:
                continue
            if n in obs.get('written_nc', {}):
                out[n] = [obs['written_nc'][n], sha(_without_comments(text))]
    finally:
        inst.close()
    return out


def run_history(hist):
    """Execute a history; -> list of records, one per op:
       {'long': obs digest, 'fresh': obs digest, 'long_obs': obs (small), 'same': bool}"""
    core.patch_pysmi()
    hroot = None
    if any(o['op'] == 'fsc' for o in hist['ops']):
        hroot = core.new_root('hfs')
    w = core.World(root=hroot, clock=core.EPOCH0, listing_seed=hist.get('listing_seed'), step_cap=400000)
    long_lived = Instances()
    if hist.get('table_cache'):
        long_lived.cache_dir = core.new_root('ptc')
        long_lived.roots.append(long_lived.cache_dir)
    recs = []
    long_results = []
    results_by_op = {}
    with w:
        for i, op in enumerate(hist['ops']):
            w.begin_op(i, op['op'])
            if op['op'] == 'repeat':
                base = hist['ops'][op['of']]
                eff = dict(base)
            else:
                eff = dict(op)
            fresh = Instances()
            fresh.is_fresh = True
            scratch = []
            if eff['op'] == 'index':
                # index the results of an earlier compile operation (by position in the history)
                src = eff.get('of', 0)
                eff['_results'] = results_by_op.get(src)
            n0 = len(long_results)
            a = execute(long_lived, eff, long_results, w)
            if len(long_results) > n0:
                results_by_op[i] = long_results[-1]
            faulted = eff['op'] == 'fsc' and bool(eff.get('rate') or eff.get('faults'))
            mark = (w.seq, len(w.log), dict(w.counts), w.tmpn, len(w.points), w.listing_rng.getstate() if w.listing_rng is not None else None)
            ckey = None
            if eff['op'] == 'parse' or (eff['op'] == 'compile' and not eff.get('modules')):
                # what objects made for this operation alone yield is a function of the operation: computed once per process
                ckey = json.dumps(eff, sort_keys=True, default=repr)
            if ckey is not None and ckey in _fresh_cache and hist.get('fresh', True):
                b = _fresh_cache[ckey]
            else:
                b = execute(fresh, eff, scratch, w) if hist.get('fresh', True) and not faulted else a
                if ckey is not None and hist.get('fresh', True):
                    if len(_fresh_cache) > 400:
                        _fresh_cache.clear()
                    _fresh_cache[ckey] = b
            fresh.close()
            da, db = sha(a), sha(b)
            recs.append({'long': da, 'fresh': db, 'same': da == db, 'obs': _brief(a), 'fresh_obs': _brief(b), 'kind': eff['op'],
                         'failed': isinstance(a, list) and a and a[0] in ('EXC', 'FOREIGN')})
            if eff['op'] == 'fsc':
                from verif.engines import fs_history
                recs[-1]['faults_fired'] = long_lived.fs.get('last_fired', 0)
                recs[-1]['faulted'] = faulted
                if not faulted and eff.get('options', {}).get('rebuild') and hist.get('fresh', True):
                    # once faults have stopped, a rebuild yields what it yields on a tree that never saw a fault or an earlier call
                    pz = Instances()
                    pz.is_fresh = True
                    n = fs_history.pristine(eff, w, long_lived.fs.get('last_muts', []), pz.parser(eff.get('dialect', 'smiV1Relaxed')))
                    recs[-1]['pristine'] = [_brief(fs_history.comparable_after_rebuild(a)), _brief(fs_history.comparable_after_rebuild(n))]
            # reference runs leave no trace in the world: seeded fault coins are indexed by event number, and a child
            # interpreter that skips the reference runs must meet the same faults
            w.seq, w.counts, w.tmpn = mark[0], mark[2], mark[3]
            if mark[5] is not None:
                w.listing_rng.setstate(mark[5])      # the order in which directories are listed is drawn from the world too
            del w.log[mark[1]:]
            del w.points[mark[4]:]
            if eff['op'] == 'compile' and eff.get('solo') and isinstance(b, dict) and hist.get('fresh', True):
                # every module written by the joint call, compiled on its own by fresh objects: same sources, same options
                solo = {}
                for m in sorted(b['written']):
                    if m in basemibs.ALL_BASE or len(b['written']) < 2:
                        continue
                    one = Instances()
                    one.is_fresh = True
                    e1 = dict(eff)
                    e1['requested'] = [m]
                    o1 = execute(one, e1, [])
                    one.close()
                    if isinstance(o1, dict) and m in o1['written']:
                        solo[m] = [b['written'][m], o1['written'][m]]
                        if b['status'].get(m, {}).get('s') == 'compiled' and o1['status'].get(m, {}).get('s') == 'compiled':
                            # the module summary (OIDs, identity, revision, compliance ...) reported for it, too
                            solo[m] += [_brief(b['status'][m]), _brief(o1['status'][m])]
                recs[-1]['solo'] = solo
                if eff.get('codegen', 'json') == 'json' and not eff.get('options', {}).get('keepLayout'):
                    recs[-1]['permod'] = per_module_reference(eff, b)
            w.end_op()
    long_lived.close()
    if hroot:
        core.drop_root(hroot)
    return recs


def _brief(o):
    s = json.dumps(o, sort_keys=True, default=repr)
    return s if len(s) < 30000 else s[:30000] + '...'


def diff_obs(a, b):
    """First difference between two brief observables, for messages."""
    try:
        x, y = json.loads(a), json.loads(b)
    except ValueError:
        return '%s vs %s' % (a[:120], b[:120])

    def walk(p, u, v):
        if type(u) != type(v):
            return '%s: %r vs %r' % (p, u, v)
        if isinstance(u, dict):
            for k in sorted(set(u) | set(v)):
                if u.get(k) != v.get(k):
                    return walk(p + '/' + str(k), u.get(k), v.get(k))
        if isinstance(u, list):
            for i, (s, t) in enumerate(zip(u, v)):
                if s != t:
                    return walk(p + '[%d]' % i, s, t)
            if len(u) != len(v):
                return '%s: lengths %d vs %d' % (p, len(u), len(v))
        return '%s: %r vs %r' % (p, u, v)
    return walk('', x, y)[:300]
