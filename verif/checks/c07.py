"""C07 - compile() accounts for every module; statuses match effects; errors
contained.  compile-sim; oracle over the recorded call history H and the
returned mapping R."""
from verif.engines import compile_sim as cs
from verif.sim import core

PROPERTY = 'C07'
ENGINE = 'compile-sim'
LEVEL = 'exploration'
QUICK_S = 45
THOROUGH_S = 480
CHUNK = 40
# 'compile returns ...': a call that never comes back (wall cap of 60 s, then 240 s, for worlds that take milliseconds) is a violation of clause 1
HANG_IS_VIOLATION = True
REAL_COMPONENTS = ['pysmi.compiler.MibCompiler.compile', 'parser (SmiV1Compat dialect)', 'SymtableCodeGen', 'JsonCodeGen (about 4% of worlds: PySnmpCodeGen)',
                   'pysmi.borrower.AnyFileBorrower (flavour test)', 'pysmi.searcher.StubSearcher (share of worlds)', 'real-filesystem worlds (about 15 %): FileReader (plain, with .index), ZipReader, HttpReader (behind a simulated web server), AnyFileSearcher, StubSearcher, AnyFileBorrower, FileWriter - tapped in place', 'CallbackReader sources sharing one look-up function and real StubSearcher objects in a share of the simulated worlds']
STUB_COMPONENTS = ['sources (outcome table: ok / defective copy / not found / reader error)', 'file-like and stub-like searchers (answer table)',
                   'borrower readers (answer table)', 'writer (records hand-overs, may fail with the package error)',
                   'injected package errors at the k-th call of any component tap', 'web server + network of HTTP sources (simulated at urlopen: refuse / 404 / 500 / cut body / no Last-Modified)', 'errno and short-write outcomes of os.* calls in real-filesystem worlds (seeded rate)']
RULE = ('seeded worlds: 1-6 generated modules (import graphs with cycles, self imports, several modules per file, defective variants), 1-3 sources, '
        '0-3 searchers, 0-3 borrowers, option subsets, injected package errors; distinct = distinct (status multiset, options, fault kinds fired, '
        'component counts); non-trivial = a fault fired or >= 2 generated modules')
ASSUMPTIONS = ['only failures signalled through PySmiError subclasses (or MIB defects) are injected, as the statement quantifies',
               'file names equal module names except for co-resident modules of a multi-module file']


def status_ok(v):
    from pysmi.compiler import MibStatus
    return isinstance(v, MibStatus) and str(v) in cs.SIX


def same_error(e, x):
    """The status carries error e; x was raised by a component.  The same object, or e wrapping x, or an equal copy."""
    if e is x or getattr(e, '__cause__', None) is x or getattr(e, '__context__', None) is x:
        return True
    if type(e) is type(x):
        mx = str(getattr(x, 'msg', x)).split(' at MIB')[0]
        return bool(mx) and mx in str(getattr(e, 'msg', e))
    return False


def judge(t):
    """-> list of violations of C07 over trace t."""
    from pysmi import error
    viol = []
    scn = t.scn
    R = t.R
    opts = scn.get('options', {})

    cores = set()      # (D18 is repaired: no name is exempt any more)

    def V(clause, msg, **facts):
        key = '%s|%s' % (clause, facts.get('what', ''))
        if facts.get('module') in cores:
            facts['coresident_failure'] = True
            key += '|coresident'
        facts.pop('module', None)
        viol.append({'clause': clause, 'key': key, 'facts': facts, 'message': msg})

    # 1. returns without raising
    if t.escaped is not None:
        if isinstance(t.escaped, core.StepBudget):
            V('C07.1-no-raise', 'compile() did not finish within the event budget', what='budget')
        else:
            stage = t.calls[-1].site if t.calls else ''
            V('C07.1-no-raise', 'compile() raised %s: %s' % (type(t.escaped).__name__, str(t.escaped)[:120]),
              what=type(t.escaped).__name__, exception=type(t.escaped).__name__, stage=stage)
        return viol
    if not isinstance(R, dict):
        V('C07.2-accounted', 'compile() returned %r, not a mapping' % (type(R).__name__,), what='not-a-mapping')
        return viol
    # 2. every requested / reachable module has exactly one of the six statuses
    for k, v in R.items():
        if not status_ok(v):
            V('C07.2-accounted', 'status of %s is %r, not one of the six documented statuses' % (k, v), what='bad-status')
    need = list(scn['requested'])
    from verif.gen import mibgen
    taken = [m for a in cs.attempts_of(t) if a['ok'] for m in a['mods']]       # modules of files that were taken
    for (mname, _ast, minfo) in taken:
        need.extend(minfo.imported)
        sp = scn.get('modules', {}).get(mname)
        if sp is not None:
            # ground truth: the modules the text names in its IMPORTS clause
            need.extend(mibgen.declared_imports(sp))
    # a name is also accounted for when the file fetched under it yielded modules with other
    # names (file named unlike its module: the result is keyed by the canonical module names)
    aliased = set(a['name'] for a in cs.attempts_of(t) if a['ok'] for (m, _x, _y) in a['mods'] if m != a['name'])
    missing_keys = sorted(set(n for n in need if n not in R and n not in aliased))
    if missing_keys:
        req = [n for n in missing_keys if n in scn['requested']]
        V('C07.2-accounted', 'modules without any status: %s' % missing_keys, what='requested' if req else 'imported',
          requested=bool(req))
    puts = t.by('writer.putData')
    # 3. at most one hand-over per module
    seen = {}
    for c in puts:
        seen[c.mib] = seen.get(c.mib, 0) + 1
    for m, n in sorted(seen.items()):
        if n > 1:
            V('C07.3-once', '%s handed to the writer %d times' % (m, n), what='twice', module=m)
    writing = opts.get('writeMibs', True)
    if not writing and puts:
        V('C07.4-status-effect', 'writer called although writing is disabled', what='write-disabled')
    okput = set(c.mib for c in puts if c.ok)
    if writing:
        for m, v in R.items():
            s = str(v)
            if s in ('compiled', 'borrowed') and m not in okput:
                V('C07.4-status-effect', '%s reported %s but no successful hand-over to the writer happened' % (m, s), what='status-without-write', status=s, module=m)
        for m in sorted(okput):
            s = str(R.get(m))
            if s not in ('compiled', 'borrowed'):
                V('C07.4-status-effect', '%s was handed to the writer successfully but is reported %s' % (m, s), what='write-without-status', status=s, module=m)
    # 5. the text is what the generator / borrower produced
    gen_ok = {}
    for c in t.by('codegen.genCode'):
        if c.ok:
            gen_ok[c.mib] = c.res[1]
    bor_ok = {}
    for c in t.by('borrower.getData'):
        if c.ok:
            bor_ok.setdefault(c.mib, c.res[1])
    for c in puts:
        want = gen_ok.get(c.mib, bor_ok.get(c.mib))
        if want is None:
            V('C07.5-text', '%s handed to the writer but neither generator nor borrower produced it' % c.mib, what='text-from-nowhere')
        elif c.kw.get('data') != want:
            V('C07.5-text', 'text handed to the writer for %s differs from what the %s produced' % (c.mib, 'generator' if c.mib in gen_ok else 'borrower'), what='text-differs', module=c.mib)
    # 6. failed entries carry the causing error; missing means nobody had it
    raised = [c for c in t.calls if c.exc is not None]
    for m, v in R.items():
        s = str(v)
        if s == 'failed':
            e = getattr(v, 'error', None)
            if e is None or not isinstance(e, error.PySmiError):
                V('C07.6-error', 'failed status of %s carries no package error (%r)' % (m, e), what='no-error')
            elif not any(same_error(e, c.exc) for c in raised):
                # compile() may create the error itself: a file that holds no module at all
                if not any(c.ok and c.ctx == m and not c.res for c in t.by('parser.parse')):
                    V('C07.6-error', 'error attached to %s was never raised by a component during this call' % m, what='foreign-error')
            elif not any(same_error(e, c.exc) and (c.mib == m or c.ctx == m) for c in raised):
                V('C07.6-error', 'error attached to %s was raised while processing another module' % m, what='others-error')
        if s == 'missing':
            gd = [c for c in t.by('src.getData') if c.mib == m]
            bad = [c for c in gd if c.ok or not isinstance(c.exc, error.PySmiReaderFileNotFoundError)]
            if bad:
                V('C07.6-error', '%s reported missing although a source answered with %s' % (m, bad[0].brief()[-1]), what='missing-but-answered')
    # 7. nothing silently dropped
    for m in gen_ok:
        s = str(R.get(m))
        if s not in ('compiled', 'unprocessed', 'failed'):
            V('C07.7-not-dropped', 'code was generated for %s but its status is %s' % (m, s), what='generated-status', status=s, module=m)
        elif s == 'failed' and not isinstance(getattr(R[m], 'error', None), error.PySmiWriterError):
            V('C07.7-not-dropped', 'code was generated for %s, yet it is reported failed with a non-writer error' % m, what='generated-failed', module=m)
    # one bad MIB does not take a healthy one down: by the scenario alone these modules can be generated
    mb = cs.must_build(scn)
    if mb and not t.world.fired:
        for c in t.by('codegen.genCode'):
            if c.mib in mb and not c.ok:
                V('C07.7-not-dropped', 'healthy module %s (all its dependencies healthy and available) failed in code generation: %s' % (c.mib, c.exc),
                  what='healthy-module-failed', module=c.mib)
    return viol


def run(scn):
    root = core.new_root('c07') if scn.get('realfs') else None
    try:
        return _run(scn, root)
    finally:
        if root:
            core.drop_root(root)


def _run(scn, root):
    t = cs.run_world(scn, root=root)
    viol = judge(t)
    if t.second is not None:
        for v in judge(t.second):
            v['key'] += '|second-call'
            v['facts']['call'] = 2
            v['message'] = 'second compile() on the same compiler: ' + v['message']
            viol.append(v)
    w = t.world
    if scn.get('realfs') and root and isinstance(t.R, dict) and not w.fired and t.escaped is None:
        # end to end over the real writer: what is reported compiled/borrowed is on disk, verbatim
        import os
        opts = scn.get('options', {})
        if opts.get('writeMibs', True) and not opts.get('dryRun'):
            for c in t.by('writer.putData'):
                if c.ok and str(t.R.get(c.mib)) in ('compiled', 'borrowed'):
                    got = core.read_bytes(os.path.join(t.dst, c.mib + '.json'))
                    if got is None or got.decode('utf-8', 'replace') != c.kw.get('data'):
                        viol.append({'clause': 'C07.5-text', 'key': 'C07.5-text|on-disk', 'facts': {'what': 'on-disk'},
                                     'message': 'module %s reported %s but the destination file does not hold the text handed to the writer' % (c.mib, t.R.get(c.mib))})
            w.probe('realfs-on-disk-checked')
    if any(c.site == 'src.getData' and not c.ok for c in t.calls) and any(c.site == 'src.getData' and c.ok for c in t.calls):
        w.probe('later-source-consulted-after-failure')
    if isinstance(t.R, dict):
        for v in t.R.values():
            w.probe('status:%s' % v)
    return cs.outcome(t, viol)


def generate(rng, tier):
    return cs.gen_world(rng, tier, focus='C07')


shrink = cs.shrink_world
size = cs.size
describe = cs.describe
