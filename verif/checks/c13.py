"""C13 - writing a module is atomic under I/O faults; dry-run touches nothing.

fs-sim: the real FileWriter / PyFileWriter run over the interposed
filesystem.  Sweep = every interposed call of putData() x every applicable
fault action (+ process kill) over a product of writer kinds, destination
states and payloads; seeded = multi-operation, multi-fault and concurrent
worlds under the baton scheduler.  Oracle = register model per module.
"""
import copy
import json
import os
import random

from verif.sim import core

PROPERTY = 'C13'
ENGINE = 'fs-sim'
ENV_VARIANTS = ['locale-C-ascii']     # the whole single-fault sweep plus seeded worlds once more under an ASCII locale
ENV_SWEEP = True
ENV_N = 150
LEVEL = 'fault_enumeration'
QUICK_S = 40
THOROUGH_S = 420
CHUNK = 60
WORLD_CAP_S = 30
REAL_COMPONENTS = ['pysmi.writer.localfile.FileWriter', 'pysmi.writer.pyfile.PyFileWriter', 'pysmi.compiler.MibCompiler (dry-run / writeMibs=False worlds)',
                   'kernel filesystem semantics (tmpfs): rename, O_EXCL, unlink', 'py_compile (real, unless it is the faulted call)']
STUB_COMPONENTS = ['errno / short-write / kill outcomes of os.* calls and of file-object write/close (injected)', 'process locale of the environment-variant child (POSIX locale, UTF-8 mode off)', 'tempfile.mkstemp naming (deterministic counter)', 'thread scheduling (baton passing, PRNG-chosen)',
                   'parser/codegen in compile() dry-run worlds: real; sources: in-memory']
RULE = ('sweep: fault-free run of each base scenario enumerates its interposed calls; one world per (call, applicable action) and per (call, kill). '
        'seeded: 1-4 putData operations with explicit/rate faults, or 2-3 concurrent writer threads under a seeded schedule. '
        'distinct = distinct (writer kind, destination state, payload class, fault kinds fired, per-op outcome classes, final state class); '
        'non-trivial = at least one fault fired, or >= 2 operations, or >= 2 threads')
ASSUMPTIONS = ['crash = process kill (page cache survives); power loss with un-synced data is not modelled',
               'faults are injected at the Python/OS call boundary; one outermost interposed call = one fault point',
               'scratch filesystem is tmpfs/$TMPDIR with real kernel rename/O_EXCL semantics']
SWEEP_SET = {
    'quick': 'writers {FileWriter "", FileWriter ".json", PyFileWriter compile on/off} x destination {missing, empty, populated} x payload {0,1,100 B ascii, 100 B utf-8, 70000 B} x every interposed call x every applicable action incl. kill',
    'thorough': 'as quick, plus two-operation bases (fault in the second operation) and comment headers',
}
CLEANUP_SITES = ('os.unlink', 'os.access')
COMPILE_WORLDS = True

WRITERS = ['file', 'filejson', 'py', 'pynocompile']
DESTS = ['missing', 'empty', 'populated']


def make_text(tag, size, kind):
    if size <= 0:
        return ''
    if kind == 'pybad':
        head = 'def (:\n'
    else:
        head = ''
    parts = [head]
    n = len(head)
    i = 0
    while n < size:
        if kind in ('py', 'pybad'):
            u = '# %s line %d\n' % (tag, i)
        elif kind == 'utf8':
            u = u'%s·%d·é漢\n' % (tag, i)
        else:
            u = '%s:%d\n' % (tag, i)
        parts.append(u)
        n += len(u)
        i += 1
    return ''.join(parts)[:size]


def writer_for(kind, path):
    from pysmi.writer.localfile import FileWriter
    from pysmi.writer.pyfile import PyFileWriter
    if kind == 'file':
        return FileWriter(path), ''
    if kind == 'filejson':
        return FileWriter(path).setOptions(suffix='.json'), '.json'
    if kind == 'py':
        return PyFileWriter(path).setOptions(pyCompile=True, pyOptimizationLevel=0), '.py'
    if kind == 'pynocompile':
        return PyFileWriter(path).setOptions(pyCompile=False), '.py'
    raise ValueError(kind)


def data_kind_for(writer, kind):
    if writer in ('py', 'pynocompile') and kind in ('ascii',):
        return 'py'
    return kind


def op_text(scn, i):
    op = scn['ops'][i]
    if op.get('same_as') is not None and op['same_as'] < i:
        return op_text(scn, op['same_as'])     # a retry: the very same text again
    return make_text('v%d-%s' % (i, op['name']), op['size'], data_kind_for(scn['writer'], op.get('kind', 'ascii')))


def prior_text(scn, name):
    spec = scn.get('prior', {}).get(name)
    if spec is None:
        return None
    return make_text('prior-%s' % name, spec['size'], data_kind_for(scn['writer'], spec.get('kind', 'ascii')))


# --------------------------------------------------------------------------
# running
# --------------------------------------------------------------------------
LEFTOVERS = (('tmpk3w9x_2a', 3 * 86400), ('tmpzz81ab3c', 40 * 86400), ('tmp0a1b2c3d', 5))


def _setup(scn, root):
    dest = os.path.join(root, 'dst')
    with core.unhooked():
        if scn['dest'] != 'missing':
            os.makedirs(dest)
        if scn['dest'] == 'populated':
            _, sfx = writer_for(scn['writer'], dest)
            for name in sorted(scn.get('prior', {})):
                t = prior_text(scn, name)
                with open(os.path.join(dest, name + sfx), 'wb') as f:
                    f.write(t.encode('utf-8'))
                os.utime(os.path.join(dest, name + sfx), (core.EPOCH0 - 1000, core.EPOCH0 - 1000))
        if scn.get('blockdir') and scn['dest'] != 'missing':
            # a directory sits where a module's file should go: the final rename cannot succeed
            _, sfx2 = writer_for(scn['writer'], dest)
            for name in scn['blockdir']:
                os.makedirs(os.path.join(dest, name + sfx2), exist_ok=True)
        if scn.get('leftovers') and scn['dest'] != 'missing':
            # temporary files of an earlier, interrupted run: not ours to judge, and not to be touched by a dry run
            for fn_, age_ in LEFTOVERS:
                with open(os.path.join(dest, fn_), 'w') as f:
                    f.write('half-written output of an interrupted run\n')
                os.utime(os.path.join(dest, fn_), (core.EPOCH0 - age_, core.EPOCH0 - age_))
    return dest


def _dest_files(dest):
    snap = core.snapshot(dest, with_mtime=False)
    return {k: v for k, v in snap.items() if not k.startswith('__pycache__')}


def _content(dest, fname):
    return core.read_bytes(os.path.join(dest, fname))


def _expected_ok(observed, data_b, comments):
    """On success the file must hold the full text (comment header allowed in front)."""
    if observed is None:
        return False
    if not comments:
        return observed == data_b
    if not observed.endswith(data_b):
        return False
    head = observed[:len(observed) - len(data_b)]
    return all(l.startswith(b'#') for l in head.splitlines()) and head.endswith(b'\n')


def run_callback(scn):
    """CallbackWriter: dry-run must not reach the user callback; a failing callback surfaces as the writer error;
    a normal return means the callback got exactly the text."""
    from pysmi import error
    from pysmi.writer.callback import CallbackWriter
    viol = []
    got = []
    w = core.World()

    def cb(name, data, ctx):
        got.append((name, data, ctx))
        if name in scn.get('cb_fail', ()):
            raise scn_exc(scn.get('cb_exc', 'RuntimeError'))
    wr = CallbackWriter(cb, cbCtx='ctx')
    outcomes = []
    with w:
        for i, op in enumerate(scn['ops']):
            w.begin_op(i, op['name'])
            n0 = len(got)
            text = make_text('cb%d' % i, op['size'], op.get('kind', 'ascii'))
            try:
                wr.putData(op['name'], text, dryRun=bool(op.get('dryRun')))
                res = 'ok'
            except error.PySmiWriterError:
                res = 'writer-error'
            except BaseException as e:  # noqa
                res = 'foreign:%s' % type(e).__name__
            w.end_op(res)
            outcomes.append(res)
            calls = got[n0:]
            if op.get('dryRun'):
                if calls:
                    viol.append({'clause': 'C13.6-dryrun', 'key': 'C13.6-dryrun|callback', 'facts': {'what': 'callback', 'writer': 'callback'},
                                 'message': 'CallbackWriter invoked the user callback in dry-run mode'})
                if res != 'ok':
                    viol.append({'clause': 'C13.6-dryrun', 'key': 'C13.6-dryrun|callback-raise', 'facts': {'what': 'callback-raise', 'writer': 'callback'},
                                 'message': 'CallbackWriter dry-run raised %s' % res})
                continue
            failing = op['name'] in scn.get('cb_fail', ())
            if failing and res != 'writer-error':
                viol.append({'clause': 'C13.3-writer-error', 'key': 'C13.3-writer-error|callback', 'facts': {'what': 'callback', 'writer': 'callback', 'exception': res},
                             'message': 'a failing user callback surfaced as %s, not the writer error' % res})
            if not failing:
                if res != 'ok':
                    viol.append({'clause': 'C13.3-writer-error', 'key': 'C13.3-writer-error|callback-spurious', 'facts': {'what': 'callback-spurious', 'writer': 'callback'},
                                 'message': 'CallbackWriter raised %s although the callback succeeded' % res})
                if len(calls) != 1 or calls[0] != (op['name'], text, 'ctx'):
                    viol.append({'clause': 'C13.4-success-means-stored', 'key': 'C13.4-success-means-stored|callback', 'facts': {'what': 'callback', 'writer': 'callback'},
                                 'message': 'CallbackWriter returned normally but the callback was called %d times / with other arguments' % len(calls)})
    fp, fph = w.fingerprints(extra=outcomes)
    return {'violations': viol, 'sig': json.dumps(['callback', outcomes, [bool(o.get('dryRun')) for o in scn['ops']]]), 'nontrivial': len(scn['ops']) >= 2 or bool(scn.get('cb_fail')),
            'events': len(w.log), 'sim_s': 0, 'fired': {'callback-raises:%s' % scn.get('cb_exc', ''): 1} if scn.get('cb_fail') else {}, 'probes': {'callback-writer-world': 1},
            'fp': fp, 'fph': fph, 'comps': {'CallbackWriter.putData(real)': len(scn['ops'])}, 'outcomes': outcomes}


def scn_exc(name):
    return {'RuntimeError': RuntimeError('cb'), 'OSError': OSError(5, 'cb'), 'ValueError': ValueError('cb'), 'KeyError': KeyError('cb')}.get(name, RuntimeError('cb'))


def run(scn):
    if scn.get('mode') == 'compile':
        return _run_compile(scn)
    if scn.get('mode') == 'callback':
        return run_callback(scn)
    from pysmi import error
    root = core.new_root('c13')
    viol = []
    outcomes = []

    def V(clause, msg, **facts):
        facts.setdefault('writer', scn['writer'])
        key = '%s|%s' % (clause, facts.get('site', facts.get('what', '')))
        viol.append({'clause': clause, 'key': key, 'facts': facts, 'message': msg})

    try:
        dest = _setup(scn, root)
        _, sfx = writer_for(scn['writer'], dest)
        names = sorted(set(op['name'] for op in scn['ops']) | set(scn.get('prior', {})))
        model = {}
        for n in names:
            t = prior_text(scn, n) if scn['dest'] == 'populated' else None
            model[n] = t.encode('utf-8') if t is not None else None
        garbage_ok = set(fn_ for fn_, _a in LEFTOVERS) if scn.get('leftovers') and scn['dest'] != 'missing' else set()
        started = {}   # name -> list of complete byte strings that may legitimately appear
        for n in names:
            started[n] = [model[n]]

        w = core.World(root=root, faults=scn.get('faults', ()), rate=scn.get('rate'), listing_seed=scn.get('listing_seed'))
        state = {'cleanup_fault': False}

        def every_event(world):
            # invariant after every event: each module file is a complete version
            for n in names:
                c = _content(dest, n + sfx)
                if c is None and any(f['site'] == 'py_compile' for f in world.fired_list):
                    continue  # 'a failure while byte-compiling ... may remove that module'
                if not any(c == s for s in started[n]):
                    if not any(_expected_ok(c, s, True) for s in started[n] if s is not None and scn.get('has_comments')):
                        V('C13.1-atomic', 'destination %s%s holds a partial or mixed file during the operation' % (n, sfx),
                          what='during', site=world.log[-1][4] if world.log else '', size=len(c) if c is not None else None)
                        world.on_event = None
                        return

        w.on_event = every_event

        def do_op(i):
            op = scn['ops'][i]
            text = op_text(scn, i)
            data_b = text.encode('utf-8')
            if not op.get('dryRun'):
                started[op['name']].append(data_b)
            kwargs = {}
            if op.get('comments'):
                kwargs['comments'] = list(op['comments'])
            if op.get('dryRun'):
                kwargs['dryRun'] = True
            try:
                # making the writer object is part of the operation: whatever its constructor does to the file system is
                # subject to the same faults and to the same rules (dry-run included)
                if scn.get('persistent_writer'):
                    # one long-lived writer object for the whole history
                    if 'w' not in state:
                        state['w'] = writer_for(scn['writer'], dest)[0]
                    writer = state['w']
                else:
                    writer, _ = writer_for(scn['writer'], dest)
                writer.putData(op['name'], text, **kwargs)
                return ('ok', None)
            except error.PySmiWriterError as e:
                return ('writer-error', e)
            except core.SimKill:
                return ('killed', None)
            except core.StepBudget:
                raise
            except BaseException as e:  # noqa
                return ('foreign:%s' % type(e).__name__, e)

        def judge(i, res, before_snap, mut_before, fired_before):
            op = scn['ops'][i]
            name = op['name']
            fname = name + sfx
            text = op_text(scn, i)
            data_b = text.encode('utf-8')
            kind, exc = res
            fired_now = w.fired_list[fired_before:]
            cleanup_faulted = any(f['site'] in CLEANUP_SITES for f in fired_now)
            multi = len(fired_now) > 1
            pyc_fault = any(f['site'] == 'py_compile' for f in fired_now)
            after = _dest_files(dest)
            obs = _content(dest, fname)
            site = fired_now[0]['site'] if fired_now else ''
            act = ('%s:%s' % (fired_now[0]['action'], fired_now[0].get('arg'))) if fired_now else ''
            # dry run
            if op.get('dryRun'):
                if w.mutations != mut_before or core.snapshot(dest) != before_snap:
                    V('C13.6-dryrun', 'dry-run modified the filesystem', what='dryrun')
                if kind != 'ok':
                    V('C13.6-dryrun', 'dry-run raised %s' % kind, what='dryrun-raise')
                return
            # clause 1: atomicity of every module file
            acceptable = [model[name], data_b]
            if pyc_fault or (scn['writer'] == 'py'):
                pass
            if kind != 'ok' and pyc_fault:
                acceptable.append(None)
            ok1 = any(obs == a for a in acceptable) or (op.get('comments') and _expected_ok(obs, data_b, True))
            if not ok1:
                V('C13.1-atomic', 'destination %s is neither the previous nor the complete new content after %s (fault %s %s)' % (fname, kind, site, act),
                  site=site, action=act, outcome=kind, size=len(obs) if obs is not None else None, want=len(data_b))
            for n in names:
                if n != name and _content(dest, n + sfx) != model[n]:
                    V('C13.1-atomic', 'another module file changed', what='other-module', site=site)
            # clause 4: success means the full text is there
            if kind == 'ok' and not _expected_ok(obs, data_b, bool(op.get('comments'))):
                V('C13.4-success-means-stored', 'putData returned normally but %s does not hold the full text (%s of %d bytes; fault %s %s)' % (
                    fname, len(obs) if obs is not None else None, len(data_b), site, act), site=site, action=act)
            # clause 3: error type
            if kind.startswith('foreign') and not cleanup_faulted:
                V('C13.3-writer-error', 'failure surfaced as %s, not the writer error (fault %s %s)' % (kind, site, act), site=site, action=act, exception=kind)
            elif kind.startswith('foreign') and not isinstance(exc, OSError):
                # the clean-up itself was made to fail as well: its OSError may come through (the statement speaks of a
                # single failing step), but an exception that no I/O step raises is a defect of the handler whatever failed
                V('C13.3-writer-error', 'with the clean-up failing too, the failure surfaced as %s (faults %s)' % (kind, [f['site'] for f in fired_now]),
                  site='cleanup', action='double-fault', exception=kind)
            # a fault in a primary step must not be swallowed into success silently with wrong content -> covered by clause 4
            # clause 2: no temp files
            if kind != 'killed' and not cleanup_faulted:
                allowed = set(n + sfx for n in names) | garbage_ok
                extra = sorted(k for k in after if k not in allowed and after[k][0] != 'd')
                if extra:
                    V('C13.2-no-temp', 'temporary file left behind after %s: %s (fault %s %s)' % (kind, extra, site, act), site=site, action=act, outcome=kind)
            if kind == 'killed' or cleanup_faulted:
                for k in after:
                    garbage_ok.add(k)
            if ok1:
                model[name] = obs
            started[name] = [model[name]]

        with w:
            if scn.get('mode') == 'concurrent':
                sched = core.Scheduler(seed=scn.get('sched_seed', 0), choices=scn.get('schedule'))
                w.sched = sched
                results = {}

                def mk(tid, idxs):
                    def body():
                        for i in idxs:
                            results[i] = do_op(i)
                    return body
                for idxs in scn['threads']:
                    for i in idxs:
                        op = scn['ops'][i]
                        started[op['name']].append(op_text(scn, i).encode('utf-8'))
                w.op = 0
                w.begin_op(0, 'concurrent')
                _, errs = sched.run([mk(t, idxs) for t, idxs in enumerate(scn['threads'])])
                w.sched = None
                w.on_event = None
                w.end_op()
                for tid, e in sorted(errs.items()):
                    if isinstance(e, core.StepBudget):
                        raise e
                    V('C13.3-writer-error', 'thread %d died with %s' % (tid, type(e).__name__), what='thread-exc')
                # judge final state
                nofault = not w.fired_list
                cleanup_faulted = any(f['site'] in CLEANUP_SITES for f in w.fired_list)
                renames = [ev for ev in w.log if ev[4] == 'os.rename' and ev[7] == 'ok']
                for n in names:
                    obs = _content(dest, n + sfx)
                    cands = [op_text(scn, i).encode('utf-8') for i, op in enumerate(scn['ops']) if op['name'] == n]
                    okc = [i for i, op in enumerate(scn['ops']) if op['name'] == n and results.get(i, ('?',))[0] == 'ok']
                    if obs is not None and obs != model[n] and obs not in cands:
                        V('C13.1-atomic', 'concurrent writers left a partial or mixed file for %s' % n, what='concurrent-final')
                    if okc and obs not in [op_text(scn, i).encode('utf-8') for i in okc] and not [r for r in results.values() if r[0] == 'killed']:
                        # a successful writer's text must be there unless a later rename replaced it by another complete version
                        if obs not in cands:
                            V('C13.7-linearisable', 'final content of %s is not the text of any writer' % n, what='concurrent-final2')
                    if okc and obs == model[n] and model[n] not in cands:
                        V('C13.4-success-means-stored', 'a writer of %s returned normally but the previous content is still there' % n, what='concurrent-lost')
                for i, r in sorted(results.items()):
                    outcomes.append(r[0])
                    if r[0].startswith('foreign') and not cleanup_faulted:
                        V('C13.3-writer-error', 'failure surfaced as %s' % r[0], what='concurrent-exc', exception=r[0])
                    if nofault and r[0] != 'ok':
                        # e.g. two writers racing to create the destination directory: the loser reports the
                        # writer error.  The statement allows a failure as long as it is atomic and typed, so
                        # this is measured, not judged.
                        w.probe('concurrent-failure-without-injected-fault')
                if not cleanup_faulted and not any(r[0] == 'killed' for r in results.values()):
                    after = _dest_files(dest)
                    allowed = set(n + sfx for n in names) | garbage_ok
                    extra = sorted(k for k in after if k not in allowed and after[k][0] != 'd')
                    if extra:
                        V('C13.2-no-temp', 'temporary file left behind by concurrent writers: %s' % extra, what='concurrent-temp')
                # last successful rename decides the final content
                last = {}
                for ev in renames:
                    last[ev[5]] = ev
                schedule_sig = ','.join(str(c) for c in sched.trace)
            else:
                schedule_sig = None
                for i in range(len(scn['ops'])):
                    w.begin_op(i, scn['ops'][i]['name'])
                    before = core.snapshot(dest) if scn['ops'][i].get('dryRun') else None
                    mut_before = w.mutations
                    fired_before = len(w.fired_list)
                    if 'advance' in scn['ops'][i]:
                        w.now += scn['ops'][i]['advance']
                    res = do_op(i)
                    w.end_op(res[0])
                    hook = w.on_event
                    w.on_event = None
                    judge(i, res, before, mut_before, fired_before)
                    w.on_event = hook if hook is not None else None
                    outcomes.append(res[0])
        fp, fph = w.fingerprints(extra=sorted(_dest_files(dest).items()))
        final_cls = ','.join(sorted('%s=%s' % (n, 'absent' if model.get(n) is None else 'set') for n in names)) if scn.get('mode') != 'concurrent' else 'conc'
        sig = json.dumps([scn['writer'], scn['dest'], scn.get('mode', 'seq'), [(op['size'] > 1000, op.get('kind'), bool(op.get('dryRun')), bool(op.get('comments'))) for op in scn['ops']],
                          sorted(w.fired), outcomes, final_cls], sort_keys=True)
        out = {
            'violations': viol, 'sig': sig,
            'nontrivial': bool(w.fired) or len(scn['ops']) >= 2 or scn.get('mode') == 'concurrent',
            'events': len(w.log), 'sim_s': w.simulated_seconds(), 'fired': dict(w.fired), 'probes': dict(w.probes),
            'fp': fp, 'fph': fph, 'points': [list(p) for p in w.points], 'outcomes': outcomes, 'fired_list': list(w.fired_list),
            'comps': {'writer.putData(real)': len(scn['ops'])},
        }
        if schedule_sig is not None:
            out['schedule_sig'] = schedule_sig
            out['schedule'] = list(sched.trace)
        for o in outcomes:
            out['probes']['outcome:' + o] = out['probes'].get('outcome:' + o, 0) + 1
        if any(ev[4] == 'os.unlink' and ev[7] == 'ok' for ev in w.log):
            out['probes']['temp-file-unlinked'] = 1
        return out
    finally:
        core.drop_root(root)


# --------------------------------------------------------------------------
# compile() with dryRun / writeMibs=False must not touch the filesystem
# --------------------------------------------------------------------------
def _run_compile(scn):
    from verif.engines import compile_sim as cs
    return cs.run_dry_world(scn, PROPERTY)


# --------------------------------------------------------------------------
# scenario construction
# --------------------------------------------------------------------------
PAYLOADS = [(0, 'ascii'), (1, 'ascii'), (100, 'ascii'), (100, 'utf8'), (70000, 'ascii')]


def base_scenarios(tier):
    bases = []
    for wk in WRITERS:
        for dest in DESTS:
            for size, kind in PAYLOADS:
                scn = {'writer': wk, 'dest': dest, 'ops': [{'name': 'MOD-A', 'size': size, 'kind': kind}]}
                if dest == 'populated':
                    scn['prior'] = {'MOD-A': {'size': 150, 'kind': 'ascii'}, 'MOD-B': {'size': 40, 'kind': 'ascii'}}
                bases.append(scn)
    if tier == 'thorough':
        for wk in WRITERS:
            for size, kind in [(100, 'ascii'), (70000, 'utf8')]:
                bases.append({'writer': wk, 'dest': 'empty', 'ops': [{'name': 'MOD-A', 'size': 64, 'kind': 'ascii'}, {'name': 'MOD-A', 'size': size, 'kind': kind}], 'fault_op': 1})
                bases.append({'writer': wk, 'dest': 'populated', 'prior': {'MOD-A': {'size': 99, 'kind': 'utf8'}}, 'has_comments': True,
                              'ops': [{'name': 'MOD-A', 'size': size, 'kind': kind, 'comments': ['generated', 'by sim']}]})
            bases.append({'writer': wk, 'dest': 'empty', 'ops': [{'name': 'MOD-A', 'size': 300, 'kind': 'pybad' if wk.startswith('py') else 'ascii'}]})
    for wk in WRITERS:
        # a directory sits where the module's file should go
        bases.append({'writer': wk, 'dest': 'empty', 'blockdir': ['MOD-A'], 'ops': [{'name': 'MOD-A', 'size': 100, 'kind': 'ascii'}]})
    return bases


def expand_faults(base):
    """fault-free run -> one scenario per (call, action) and (call, kill)."""
    out = run(base)
    scns = [base]
    fop = base.get('fault_op', 0)
    for (op, site, nth, subject) in out['points']:
        if op != fop:
            continue
        acts = list(core.SITE_ACTIONS.get(site, []))
        if site == 'os.stat':
            acts = [a for a in acts if a[0] != 'vanish']
        for a, arg in acts:
            s = copy.deepcopy(base)
            s.pop('fault_op', None)
            s['faults'] = [{'op': op, 'site': site, 'nth': nth, 'action': a, 'arg': arg}]
            scns.append(s)
        s = copy.deepcopy(base)
        s.pop('fault_op', None)
        s['faults'] = [{'op': op, 'site': site, 'nth': nth, 'action': 'kill', 'arg': None}]
        scns.append(s)
        if site in ('os.write', 'os.close', 'os.rename', 'file.write', 'file.close') and nth == 0:
            # ... and the removal of the temporary file fails as well (not judged for what the statement leaves open, only
            # for atomicity and for exceptions no I/O step raises)
            s = copy.deepcopy(base)
            s.pop('fault_op', None)
            s['faults'] = [{'op': op, 'site': site, 'nth': nth, 'action': 'errno', 'arg': 'EIO'}, {'op': op, 'site': 'os.unlink', 'nth': 0, 'action': 'errno', 'arg': 'EACCES'}]
            scns.append(s)
    return scns


def sweep(tier):
    scns = []
    for b in base_scenarios(tier):
        scns.extend(expand_faults(b))
    return scns


def generate(rng, tier):
    mode = rng.choices(['seq', 'concurrent', 'compile'], weights=[55, 33, 12 if COMPILE_WORLDS else 0])[0]
    if mode == 'compile':
        from verif.engines import compile_sim as cs
        return cs.gen_dry_world(rng, tier)
    if rng.random() < 0.04:
        names_ = ['MOD-A', 'MOD-B']
        return {'mode': 'callback', 'writer': 'callback', 'dest': 'none',
                'ops': [{'name': rng.choice(names_), 'size': rng.choice([0, 1, 100]), 'kind': rng.choice(['ascii', 'utf8']), 'dryRun': rng.random() < 0.3} for _ in range(rng.choice([1, 2, 3]))],
                'cb_fail': [rng.choice(names_)] if rng.random() < 0.4 else [], 'cb_exc': rng.choice(['RuntimeError', 'OSError', 'ValueError', 'KeyError'])}
    wk = rng.choice(WRITERS)
    dest = rng.choice(DESTS)
    names = ['MOD-A', 'MOD-B', 'Mod-c'][:rng.choice([1, 1, 2, 3])]
    scn = {'writer': wk, 'dest': dest, 'listing_seed': rng.randrange(1 << 30)}
    if dest != 'missing' and rng.random() < 0.25:
        scn['leftovers'] = True
    if dest == 'empty' and rng.random() < 0.06:
        scn['blockdir'] = ['MOD-B']
    if dest == 'populated':
        scn['prior'] = {n: {'size': rng.choice([1, 37, 150, 5000]), 'kind': rng.choice(['ascii', 'utf8'])} for n in names if rng.random() < 0.8}

    def rnd_op():
        op = {'name': rng.choice(names), 'size': rng.choice([0, 1, 2, 17, 100, 4096, 65536, 70000, 131073]),
              'kind': rng.choice(['ascii', 'ascii', 'utf8'] + (['pybad'] if wk.startswith('py') else []))}
        return op
    if mode == 'seq':
        nops = rng.choice([1, 2, 2, 3, 4])
        scn['ops'] = [rnd_op() for _ in range(nops)]
        if rng.random() < 0.4:
            scn['persistent_writer'] = True
        for i in range(1, nops):
            if rng.random() < 0.3:
                j = rng.randrange(i)
                scn['ops'][i] = dict(scn['ops'][j])
                scn['ops'][i]['same_as'] = j
                scn['ops'][i].pop('dryRun', None)
        for op in scn['ops']:
            r = rng.random()
            if r < 0.12:
                op['dryRun'] = True
            elif r < 0.25:
                op['comments'] = ['c%d' % rng.randrange(100), 'second line']
                scn['has_comments'] = True
        style = rng.choice(['none', 'explicit', 'explicit', 'rate', 'rate'])
        if rng.random() < 0.08:
            # a store that fails and is then repeated with the very same text on the same writer object, while the
            # destination holds another text of exactly the same length (a regenerated module in which only a
            # fixed-width field differs)
            sz = rng.choice([37, 150, 5000, 70000])
            nm = names[0]
            scn['dest'] = 'populated'
            scn['prior'] = {nm: {'size': sz, 'kind': 'ascii'}}
            scn.pop('blockdir', None)
            scn['persistent_writer'] = True
            first = [{'name': nm, 'size': sz, 'kind': 'ascii'}] if rng.random() < 0.5 else []
            k = len(first)
            scn['ops'] = first + [{'name': nm, 'size': sz, 'kind': 'ascii'}, {'name': nm, 'size': sz, 'kind': 'ascii', 'same_as': k + 0}]
            scn['ops'][-1]['same_as'] = k
            scn.pop('has_comments', None)
            style = 'explicit-op%d' % k
        if style.startswith('explicit-op'):
            k = int(style[len('explicit-op'):])
            pts = [p for p in run(scn)['points'] if p[0] == k]
            if pts:
                op, site, nth, _s = rng.choice(pts)
                acts = [a for a in core.SITE_ACTIONS.get(site, []) if a[0] not in ('vanish',)]
                if acts:
                    a, arg = rng.choice(acts)
                    scn['faults'] = [{'op': op, 'site': site, 'nth': nth, 'action': a, 'arg': arg}]
        elif style == 'explicit':
            # draw fault points from the fault-free run of this very scenario
            pts = [p for p in run(scn)['points']]
            faults = []
            for _ in range(rng.choice([1, 1, 2, 3])):
                if not pts:
                    break
                op, site, nth, _s = rng.choice(pts)
                acts = [a for a in core.SITE_ACTIONS.get(site, []) if a[0] != 'vanish'] + [('kill', None)]
                a, arg = rng.choice(acts)
                if a == 'short' and rng.random() < 0.5:
                    arg = rng.choice([0, 1, 2, 3, 7, 64, 4095, 4096, 65535])
                faults.append({'op': op, 'site': site, 'nth': nth, 'action': a, 'arg': arg})
                if a == 'errno' and rng.random() < 0.3:
                    # the same call fails again should the code retry it
                    faults.append({'op': op, 'site': site, 'nth': nth + 1, 'action': a, 'arg': arg})
            scn['faults'] = faults
        elif style == 'rate':
            scn['rate'] = {'p': rng.choice([0.01, 0.05, 0.2]), 'seed': rng.randrange(1 << 30),
                           'sites': sorted(rng.sample(['os.stat', 'os.makedirs', 'mkstemp', 'os.write', 'os.close', 'os.rename', 'os.unlink', 'os.access', 'py_compile'], rng.randrange(2, 9)))}
    else:
        nthreads = rng.choice([2, 2, 3])
        ops = []
        threads = []
        same = rng.random() < 0.7
        for t in range(nthreads):
            idxs = []
            for _ in range(rng.choice([1, 1, 2])):
                op = rnd_op()
                if same:
                    op['name'] = names[0]
                op['size'] = rng.choice([1, 100, 5000, 70000])
                idxs.append(len(ops))
                ops.append(op)
            threads.append(idxs)
        scn['mode'] = 'concurrent'
        scn['ops'] = ops
        scn['threads'] = threads
        scn['sched_seed'] = rng.randrange(1 << 30)
        if rng.random() < 0.3:
            scn['rate'] = {'p': rng.choice([0.02, 0.1]), 'seed': rng.randrange(1 << 30),
                           'sites': ['mkstemp', 'os.write', 'os.close', 'os.rename']}
    return scn


# --------------------------------------------------------------------------
# minimisation
# --------------------------------------------------------------------------
def size(scn):
    return {'operations': len(scn.get('ops', [])), 'faults': len(scn.get('faults', [])), 'rate': bool(scn.get('rate')),
            'threads': len(scn.get('threads', []))}


def shrink(scn):
    if scn.get('mode') == 'callback':
        for i in range(len(scn['ops'])):
            if len(scn['ops']) > 1:
                s = copy.deepcopy(scn)
                del s['ops'][i]
                yield s
        return
    if scn.get('mode') == 'compile':
        from verif.engines import compile_sim as cs
        for c in cs.shrink_dry_world(scn):
            yield c
        return
    # rate faults -> explicit list of what fired
    if scn.get('rate'):
        out = run(scn)
        s = copy.deepcopy(scn)
        s.pop('rate')
        s['faults'] = list(scn.get('faults', [])) + [dict(f) for f in _fired(scn)]
        if scn.get('mode') == 'concurrent':
            s['schedule'] = out.get('schedule')
        yield s
        s2 = copy.deepcopy(scn)
        s2.pop('rate')
        yield s2
    if scn.get('mode') == 'concurrent' and 'schedule' not in scn:
        out = run(scn)
        s = copy.deepcopy(scn)
        s['schedule'] = out.get('schedule')
        yield s
    fl = scn.get('faults', [])
    for i in range(len(fl)):
        s = copy.deepcopy(scn)
        del s['faults'][i]
        yield s
    if scn.get('mode') == 'concurrent':
        for t in range(len(scn['threads'])):
            if len(scn['threads']) > 2 or len(scn['threads'][t]) > 1:
                s = copy.deepcopy(scn)
                if len(s['threads'][t]) > 1:
                    s['threads'][t].pop()
                else:
                    del s['threads'][t]
                s.pop('schedule', None)
                yield s
        sch = scn.get('schedule')
        if sch:
            # merge context switches: make a run of choices uniform
            for i in range(1, len(sch)):
                if sch[i] != sch[i - 1]:
                    s = copy.deepcopy(scn)
                    s['schedule'][i] = sch[i - 1]
                    yield s
    else:
        for i in range(len(scn['ops'])):
            if len(scn['ops']) > 1:
                s = copy.deepcopy(scn)
                del s['ops'][i]
                bad = False
                for o2 in s['ops']:
                    if o2.get('same_as') is not None:
                        if o2['same_as'] == i:
                            bad = True
                        elif o2['same_as'] > i:
                            o2['same_as'] -= 1
                if bad:
                    continue
                nf = []
                for f in s.get('faults', []):
                    if f.get('op') == i:
                        continue
                    if f.get('op') is not None and f['op'] > i:
                        f['op'] -= 1
                    nf.append(f)
                s['faults'] = nf
                yield s
    for i, op in enumerate(scn['ops']):
        for smaller in (1, 16, 100):
            if op['size'] > smaller:
                s = copy.deepcopy(scn)
                s['ops'][i]['size'] = smaller
                yield s
                break
        if op.get('comments'):
            s = copy.deepcopy(scn)
            s['ops'][i].pop('comments')
            yield s
        if op.get('kind') != 'ascii':
            s = copy.deepcopy(scn)
            s['ops'][i]['kind'] = 'ascii'
            yield s
    if scn.get('persistent_writer'):
        s = copy.deepcopy(scn)
        s.pop('persistent_writer')
        yield s
    if scn.get('prior') and len(scn['prior']) > 1:
        for k in sorted(scn['prior']):
            s = copy.deepcopy(scn)
            del s['prior'][k]
            yield s
    if scn['dest'] == 'populated':
        s = copy.deepcopy(scn)
        s['dest'] = 'empty'
        s.pop('prior', None)
        yield s


def _fired(scn):
    # re-run to learn which seeded faults fired
    root = None
    out = run(scn)
    return out.get('fired_list', [])


def describe(scn, out):
    d = {k: v for k, v in scn.items() if k not in ('_world',)}
    return {'scenario': d, 'outcomes': out.get('outcomes'), 'faults_fired': out.get('fired'), 'events': out.get('events')}
