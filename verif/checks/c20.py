"""C20 - the command-line tools report and leave on disk exactly what happened.

fs-sim: scripts/mibdump.py and scripts/mibcopy.py are executed in-process
with runpy inside a world (argv generated; stderr and SystemExit captured;
MibCompiler.compile tapped to capture the status map the script saw; the
network is partitioned; every directory the scripts may consult is passed
explicitly and lies inside the scratch root)."""
import copy
import io
import json
import os
import re
import runpy
import socket
import sys

from verif import REPO
from verif.gen import basemibs, mibgen
from verif.sim import core

PROPERTY = 'C20'
ENGINE = 'fs-sim'
LEVEL = 'exploration'
QUICK_S = 50
THOROUGH_S = 480
CHUNK = 12
WORLD_CAP_S = 60
REAL_COMPONENTS = ['scripts/mibdump.py', 'scripts/mibcopy.py', 'MibCompiler + parser + JsonCodeGen/PySnmpCodeGen/NullCodeGen', 'FileReader, file searchers, file borrowers, FileWriter/PyFileWriter',
                   'shutil.copy / os.walk (interposed)']
STUB_COMPONENTS = ['LALR table generation in 80 % of the worlds (PLY loads tables it wrote once per process)', 'network (partitioned: any socket creation fails and is counted)', 'directory visiting order (seeded permutation)', 'writer / copy faults (errno)', 'clock and host identity']
RULE = ('mibdump: generated on-disk module sets (healthy, missing, broken members, files named unlike their module) x format {json, pysnmp, null} x option subsets x destination state, '
        'usage errors, writer faults; mibcopy: source trees with several copies of a module under arbitrary file names with different/equal/no REVISION, destination empty or pre-populated, '
        '3 visiting orders per world, copy faults. distinct = distinct (tool, format, options, exit code, status multiset, fault kinds, revision pattern); non-trivial = all')
ASSUMPTIONS = ['--mib-source, --mib-borrower, --mib-searcher and --destination-directory are always passed so that nothing outside the scratch root is consulted',
               '--build-index is combined only with json/null formats (pysnmp has no index generator)',
               'distinct source copies of one module never tie on the maximal revision (visiting order would then legitimately decide)',
               'a copy without a REVISION clause ranks as the Epoch (1970-01-01); revisions before 1970 (short-form years 00..68 = 1900..1968) are generated only for modules that have no revision-less copy in the tree or at the destination']

MIBDUMP = os.path.join(REPO, 'scripts', 'mibdump.py')
MIBCOPY = os.path.join(REPO, 'scripts', 'mibcopy.py')
SUFFIX = {'json': '.json', 'pysnmp': '.py', 'null': None}


class _Capture(object):
    def __init__(self):
        self.maps = []


def run_script(path, argv, world, capture):
    """-> (exit code or 'exc:<Type>', stderr text)"""
    import pysmi.compiler as pc
    real_compile = pc.MibCompiler.compile

    def tapped(self, *a, **k):
        r = real_compile(self, *a, **k)
        capture.maps.append(dict(r) if isinstance(r, dict) else r)      # what compile() returned, not what the script makes of it later
        return r
    pc.MibCompiler.compile = tapped
    old_argv, old_err = sys.argv, sys.stderr
    err = io.StringIO()
    sys.argv = [path] + list(argv)
    sys.stderr = err
    net = core.partitioned_network()
    try:
        with net:
            try:
                runpy.run_path(path, run_name='__main__')
                code = 0
            except SystemExit as e:
                code = e.code if e.code is not None else 0
            except (core.StepBudget, core.WorldTimeout, core.SimKill):
                raise
            except BaseException as e:  # noqa
                code = 'exc:%s' % type(e).__name__
                err.write('\nTRACEBACK %s: %s' % (type(e).__name__, e))
    finally:
        sys.argv, sys.stderr = old_argv, old_err
        pc.MibCompiler.compile = real_compile
    opened = [1] * net.attempts
    if opened:
        world.probe('socket-attempts', len(opened))
    return code, err.getvalue()


# ==========================================================================
# mibdump
# ==========================================================================
def gen_mibdump(rng, tier):
    n = rng.choice([1, 2, 3])
    specs = mibgen.gen_modules(rng, n, cycles=rng.random() < 0.3, defects=0.2, smiv1=0.1, oiddefval=0.1)
    names = sorted(specs)
    fnames = {}
    for m in names:
        r = rng.random()
        if r < 0.6:
            fnames[m] = m
        elif r < 0.8:
            fnames[m] = m.lower() + '.txt'
        elif r < 0.9:
            fnames[m] = m + '.mib'
        else:
            fnames[m] = None      # missing from the source directory
    fmt = rng.choice(['json', 'json', 'pysnmp', 'null'])
    flags = []
    for f, p in (('--no-dependencies', .2), ('--rebuild', .2), ('--dry-run', .15), ('--no-mib-writes', .1), ('--ignore-errors', .35),
                 ('--generate-mib-texts', .2), ('--keep-texts-layout', .1), ('--quiet', .15)):
        if rng.random() < p:
            flags.append(f)
    if fmt != 'pysnmp' and rng.random() < 0.2:
        flags.append('--build-index')
    if fmt == 'pysnmp' and rng.random() < 0.5:
        flags.append('--no-python-compile')
    req = [rng.choice(names) for _ in range(rng.choice([1, 1, 2]))]
    by_file_name = rng.random() < 0.15
    if by_file_name:
        # asked for by the name of the file (lower case, no extension) rather than by the module name
        fnames[req[0]] = rng.choice([req[0].lower() + '.txt', 'vendor-%s-v2.txt' % req[0][:3].lower(), 'vendor-%s-v2.txt' % req[0][:3].lower()])
        req = [(fnames[m].rsplit('.', 1)[0] if fnames.get(m) and fnames[m] != m and fnames[m].endswith('.txt') else m) for m in req]
    scn = {'tool': 'mibdump', 'modules': specs, 'fnames': fnames, 'format': fmt, 'flags': flags, 'requested': req,
           'dest': rng.choice(['missing', 'empty', 'populated'] + (['populated'] * 3 if by_file_name else [])), 'listing_seed': rng.randrange(1 << 30)}
    if rng.random() < 0.3:
        scn['stubs'] = [rng.choice(names)]
    if rng.random() < 0.4:
        scn['borrow'] = sorted(rng.sample(names + ['NO-SUCH-MIB'], rng.choice([1, 2])))
    if rng.random() < 0.08:
        scn['requested'].append('NO-SUCH-MIB')
    if rng.random() < 0.06 and fmt != 'null':
        scn['blockdir'] = rng.choice(names)
    u = rng.random()
    if u < 0.04:
        scn['usage'] = rng.choice(['no-names', 'bad-option', 'bad-format', 'bad-optlevel'])
    elif u < 0.2:
        scn['rate'] = {'p': rng.choice([0.02, 0.1]), 'seed': rng.randrange(1 << 30), 'sites': ['mkstemp', 'os.write', 'os.close', 'os.rename', 'os.makedirs'], 'actions': ['errno']}
    elif u < 0.35:
        # one store operation fails: the k-th temp file / write / rename of the run
        scn['faults'] = [{'op': 0, 'site': rng.choice(['mkstemp', 'os.write', 'os.rename', 'os.close']), 'nth': rng.choice([0, 0, 1, 2, 3]),
                          'action': 'errno', 'arg': rng.choice(['ENOSPC', 'EIO', 'EACCES'])}]
    leaves = [m for m in names if not any(m in specs[o]['imports'] or specs[o].get('defval_dep') == m for o in names if o != m)]
    shape2 = rng.random() < 0.07 and len(names) >= 2 and not scn.get('usage')
    if shape2:
        # every module can be fetched and parsed, one fails only inside the code generator (errors not ignored, nobody to
        # borrow from, nothing else goes wrong): whatever the run had generated by then is not part of the outcome
        bad = rng.choice(names)
        for m in names:
            specs[m]['variant'] = 'ok'
            specs[m].pop('oiddefval', None)
            if fnames[m] is None:
                fnames[m] = m
        specs[bad]['variant'] = rng.choice(['badref', 'oidcycle', 'oidtype', 'latefail'])
        scn['flags'] = [f for f in flags if f not in ('--ignore-errors', '--dry-run', '--no-mib-writes', '--no-dependencies')]
        scn['requested'] = rng.choice([sorted(names), sorted(names, reverse=True), [bad], [m for m in names if m != bad][:1] + [bad]])
        for k_ in ('rate', 'stubs', 'borrow', 'faults', 'blockdir'):
            scn.pop(k_, None)
    elif rng.random() < 0.1 and len(names) >= 2 and leaves and not scn.get('usage'):
        # the shape in which report, exit code and directory are easiest to get out of step: one module (that nobody
        # imports) is broken and replaced by a borrowed copy, everything else is healthy and gets compiled, and one
        # store operation of the run fails (errors not ignored)
        bad = rng.choice(leaves)
        for m in names:
            specs[m]['variant'] = 'ok'
            specs[m].pop('oiddefval', None)
            if fnames[m] is None:
                fnames[m] = m
        specs[bad]['variant'] = rng.choice(['lex', 'syntax', 'cut', 'dupsym', 'badref'])
        scn['borrow'] = [bad]
        if fmt == 'null':
            scn['format'] = 'json'
        scn['flags'] = [f for f in flags if f not in ('--ignore-errors', '--dry-run', '--no-mib-writes', '--no-dependencies', '--build-index')]
        scn['requested'] = sorted(names)
        scn.pop('rate', None)
        scn.pop('stubs', None)
        scn['dest'] = rng.choice(['missing', 'empty'])
        scn['faults'] = [{'op': 0, 'site': rng.choice(['mkstemp', 'os.write', 'os.rename', 'os.close']), 'nth': rng.choice([0, 1, 1, 2, 2, 3, 4]),
                          'action': 'errno', 'arg': rng.choice(['ENOSPC', 'EIO', 'EACCES', 'ESTALE'])}]
    return scn


def run_mibdump(scn):
    root = core.new_root('c20d')
    viol = []

    def V(clause, msg, **facts):
        facts.setdefault('tool', 'mibdump')
        viol.append({'clause': clause, 'key': '%s|%s' % (clause, facts.get('what', '')), 'facts': facts, 'message': msg})
    try:
        src = os.path.join(root, 'src')
        dst = os.path.join(root, 'dst')
        bor = os.path.join(root, 'borrow')
        specs = scn['modules']
        fmt = scn['format']
        sfx = SUFFIX[fmt]
        with core.unhooked():
            os.makedirs(src)
            os.makedirs(bor)
            for n, txt in basemibs.ALL_BASE.items():
                with open(os.path.join(src, n), 'w') as f:
                    f.write(txt)
                os.utime(os.path.join(src, n), (core.EPOCH0 - 100, core.EPOCH0 - 100))
            for m, fn in sorted(scn['fnames'].items()):
                if fn:
                    with open(os.path.join(src, fn), 'w') as f:
                        f.write(mibgen.render(specs[m], specs))
                    os.utime(os.path.join(src, fn), (core.EPOCH0 - 100, core.EPOCH0 - 100))
            for m in scn.get('borrow', []):
                if sfx:
                    with open(os.path.join(bor, m + sfx), 'w') as f:
                        f.write('# borrowed copy of %s\n' % m if fmt == 'pysnmp' else '{"borrowed": "%s"}\n' % m)
            if scn['dest'] != 'missing':
                os.makedirs(dst)
            if scn['dest'] == 'populated' and sfx:
                for i, m in enumerate(sorted(specs)):
                    p = os.path.join(dst, m + sfx)
                    with open(p, 'w') as f:
                        f.write('# previous\n' if fmt == 'pysnmp' else '{"previous": true}\n')
                    t = core.EPOCH0 - 100 + (-50 if i % 2 else 50)   # alternately older and newer than the source
                    os.utime(p, (t, t))
        if scn.get('blockdir') and sfx:
            # a directory sits where a module's file should go
            with core.unhooked():
                bd_ = os.path.join(dst, scn['blockdir'] + sfx)
                if os.path.isfile(bd_):
                    os.unlink(bd_)
                os.makedirs(bd_, exist_ok=True)
        old_index = None
        if '--build-index' in scn['flags'] and fmt == 'json' and scn['dest'] == 'populated':
            old_index = {'compliance': {'1.3.6.1.4.1.31337.9': ['ELSEWHERE-MIB']}, 'enterprise': {'1.3.6.1.4.1.31337': ['ELSEWHERE-MIB']},
                         'identity': {'1.3.6.1.4.1.31337': ['ELSEWHERE-MIB']}, 'meta': {}, 'oids': {'1.3.6.1.4.1.31337': ['ELSEWHERE-MIB']}}
            with core.unhooked():
                with open(os.path.join(dst, 'index.json'), 'w') as f:
                    json.dump(old_index, f)
        before = core.snapshot(dst, with_mtime=False)
        argv = ['--mib-source=file://' + src, '--mib-borrower=' + bor, '--mib-searcher=nosuchpkg_sim', '--destination-directory=' + dst,
                '--destination-format=' + fmt]
        for s in scn.get('stubs', []):
            argv.append('--mib-stub=' + s)
        argv += list(scn['flags'])
        names = list(scn['requested'])
        usage = scn.get('usage')
        if usage == 'no-names':
            names = []
        elif usage == 'bad-option':
            argv.append('--no-such-option')
        elif usage == 'bad-format':
            argv = [a for a in argv if not a.startswith('--destination-format')] + ['--destination-format=xml']
        elif usage == 'bad-optlevel':
            argv.append('--python-optimization-level=fast')
        argv += names
        w = core.World(root=root, rate=scn.get('rate'), faults=scn.get('faults', ()), listing_seed=scn.get('listing_seed'), clock=core.EPOCH0)
        core.patch_pysmi()
        cap = _Capture()
        with w:
            w.begin_op(0, 'mibdump')
            code, err = run_script(MIBDUMP, argv, w, cap)
            w.end_op(str(code))
        after = core.snapshot(dst, with_mtime=False)
        R = cap.maps[-1] if cap.maps else None
        faulted = bool(w.fired)
        dry = '--dry-run' in scn['flags'] or '--no-mib-writes' in scn['flags']
        quiet = '--quiet' in scn['flags']
        if isinstance(code, str):
            V('C20.0-no-traceback', 'mibdump died with %s: %s' % (code, err[-300:].replace('\n', ' | ')), what='traceback', exception=code[4:], faulted=faulted)
        elif usage:
            if code != 64:
                V('C20.1-exit-code', 'usage error (%s) gave exit code %r, expected 64' % (usage, code), what='usage-exit', usage=usage)
            if after != before:
                V('C20.3-files', 'usage error modified the destination', what='usage-wrote')
        elif R is None:
            if code == 0:
                V('C20.1-exit-code', 'mibdump exited 0 without compiling anything', what='no-compile')
        else:
            bad = sorted(m for m, s in R.items() if str(s) in ('missing', 'failed'))
            if code == 0 and bad:
                V('C20.1-exit-code', 'exit code 0 although %s are missing/failed' % bad, what='zero-with-failures')
            if code != 0 and not bad and code != 70:
                V('C20.1-exit-code', 'exit code %r although no module is missing or failed' % code, what='nonzero-without-failures', code=code)
            if code == 70 and not faulted and '--build-index' not in scn['flags']:
                V('C20.1-exit-code', 'exit code 70 (software error) in a fault-free run: %s' % err[-200:].replace('\n', ' | '), what='software-error')
            # report categories
            if not quiet and code in (0, 79):
                # the six category lines of the report, recognised by their labels at the start of a line (the report may
                # carry other lines as well)
                cats = {'compiled': r'(?:Would be c|C)reated/updated MIBs', 'borrowed': r'Pre-compiled MIBs (?:Would be )?borrowed', 'untouched': r'Up to date MIBs',
                        'missing': r'Missing source MIBs', 'unprocessed': r'Ignored MIBs', 'failed': r'Failed MIBs'}
                lines = {}
                for line in err.replace('\r', '').split('\n'):
                    for st, tag in cats.items():
                        m_ = re.match(r'\s*%s\s*:(.*)$' % tag, line)
                        if m_ and st not in lines:
                            lines[st] = m_.group(1)
                for m, s in sorted(R.items()):
                    s = str(s)
                    for st in cats:
                        txt = lines.get(st)
                        if txt is None:
                            V('C20.2-report', 'report has no line for category %s' % st, what='no-line')
                            continue
                        present = re.search(r'(^|[\s,])%s($|[\s,(])' % re.escape(m), txt) is not None
                        if st == s and not present:
                            V('C20.2-report', 'module %s has status %s but is not listed under that category' % (m, s), what='not-listed', status=s)
                        if st != s and present and st != 'failed':
                            V('C20.2-report', 'module %s has status %s but is listed under %s' % (m, s, st), what='wrong-category', status=s, listed=st)
            # an index built on top of an existing one keeps what that one provided (C18 through the tool)
            if old_index is not None and not dry and not faulted and code in (0, 79):
                raw = core.read_bytes(os.path.join(dst, 'index.json'))
                try:
                    now = json.loads(raw.decode()) if raw else {}
                except ValueError:
                    now = {}
                lost = [sec for sec in ('identity', 'enterprise', 'compliance', 'oids')
                        if any('ELSEWHERE-MIB' not in (now.get(sec) or {}).get(k, []) for k in old_index[sec])]
                if lost:
                    V('C20.7-index-kept', 'mibdump --build-index dropped the entries of a module indexed earlier (sections %s; flags %s)' % (lost, sorted(scn['flags'])), what='index-entries-lost')
            # files
            noidx = lambda snap: {k: v for k, v in snap.items() if not os.path.basename(k).startswith('index')}
            if dry:
                if noidx(after) != noidx(before):
                    V('C20.4-dryrun', 'destination changed under %s' % [f for f in scn['flags'] if f in ('--dry-run', '--no-mib-writes')], what='dry-run-wrote')
            elif sfx is not None and not faulted and code in (0, 79):
                made = set(m + sfx for m, s in R.items() if str(s) in ('compiled', 'borrowed'))
                changed = set(k for k in after if after[k] != before.get(k) and after[k][0] == 'f' and not k.startswith('__pycache__') and not os.path.basename(k).startswith('index'))
                gone = set(k for k in before if k not in after)
                if changed != made:
                    V('C20.3-files', 'new or changed files %s, modules reported created/borrowed %s' % (sorted(changed), sorted(made)), what='files-vs-report',
                      extra=sorted(changed - made), lacking=sorted(made - changed))
                if gone:
                    V('C20.3-files', 'files disappeared from the destination: %s' % sorted(gone), what='files-gone')
            elif sfx is not None and faulted:
                # under writer faults: whatever is reported created must be there completely; nothing partial
                for m, s in R.items():
                    if str(s) in ('compiled', 'borrowed') and (m + sfx) not in after:
                        V('C20.3-files', 'module %s reported %s but its file is absent (faults %s)' % (m, s, sorted(w.fired)), what='reported-but-absent')
                stray = [k for k in after if os.path.basename(k).startswith('simtmp')]
                if stray:
                    V('C20.3-files', 'temporary files left in the destination: %s' % stray, what='temp-left')
                # ... and a store operation that failed leaves nothing under the module's name: what is new in the
                # destination are the modules reported created or borrowed
                if code in (0, 79):
                    made = set(m + sfx for m, s in R.items() if str(s) in ('compiled', 'borrowed'))
                    changed = set(k for k in after if after[k] != before.get(k) and after[k][0] == 'f' and not k.startswith('__pycache__') and not os.path.basename(k).startswith('index')
                                  and k not in stray)
                    if changed - made:
                        V('C20.3-files', 'files %s are new or changed although their modules are reported %s (faults %s)' % (
                            sorted(changed - made), sorted(set(str(R.get(k[:-len(sfx)] if sfx else k)) for k in changed - made)), sorted(w.fired)), what='unreported-file-under-fault')
        statuses = sorted(set(str(s) for s in R.values())) if R else []
        fp, fph = w.fingerprints(extra=[str(code), sorted((k, str(v)) for k, v in R.items()) if R else None])
        return {'violations': viol, 'sig': json.dumps(['mibdump', fmt, sorted(scn['flags']), str(code), statuses, sorted(w.fired), scn['dest'], usage]),
                'nontrivial': True, 'events': len(w.log), 'sim_s': 0, 'fired': dict(w.fired), 'probes': dict(w.probes, **{'mibdump': 1, 'exit:%s' % code: 1}),
                'fp': fp, 'fph': fph, 'comps': {'mibdump(real script)': 1}, 'code': code, 'statuses': {k: str(v) for k, v in (R or {}).items()}}
    finally:
        core.drop_root(root)


# ==========================================================================
# mibcopy
# ==========================================================================
def mod_text(name, rev, tag):
    lines = ['%s DEFINITIONS ::= BEGIN' % name, 'IMPORTS MODULE-IDENTITY, enterprises FROM SNMPv2-SMI;', '-- copy %s' % tag]
    if rev is None:
        lines.append('%s OBJECT IDENTIFIER ::= { enterprises %d }' % (mibgen.root_sym(name), 77))
    else:
        lines += ['%s MODULE-IDENTITY' % mibgen.root_sym(name), '    LAST-UPDATED "%s"' % rev, '    ORGANIZATION "o"', '    CONTACT-INFO "c"', '    DESCRIPTION "d"',
                  '    REVISION "%s"' % rev, '    DESCRIPTION "r"', '    ::= { enterprises 77 }']
    lines.append('END')
    return '\n'.join(lines) + '\n'


REVS = ['199901010000Z', '200506150000Z', '200506151530Z', '201012312359Z', '202002290000Z', '202002290001Z', '9506150000Z', '0501010000Z', '6812312359Z']


def gen_mibcopy(rng, tier):
    names = ['AAA-MIB', 'BBB-MIB', 'CCC-MIB'][:rng.choice([1, 2, 2, 3])]
    files = []
    k = 0
    for m in names:
        ncopies = rng.choice([1, 1, 2, 3])
        norev = rng.random() < 0.3
        # a copy without REVISION ranks as the Epoch; revisions before 1970 are offered only where no such copy competes
        pool = [r for r in REVS if not (len(r) == 11 and r[:2] < '70')] if norev else REVS
        revs = rng.sample(pool, min(ncopies, len(pool)))
        for c in range(ncopies):
            k += 1
            rev = None if (norev and c == 0) else revs[c]
            d = rng.choice(['', '', 'vendor', 'vendor/old', 'z'])
            fn = rng.choice([m, m.lower() + '.txt', 'file%d.mib' % k, m + '.my', 'x%d' % k])
            files.append({'path': (d + '/' if d else '') + fn, 'module': m, 'rev': rev, 'tag': 'c%d' % k})
    if rng.random() < 0.3:
        files.append({'path': 'junk%d.txt' % k, 'garbage': True})
    if rng.random() < 0.35:
        files.append({'path': rng.choice(['broken.mib', 'a-broken', 'zz/broken.txt']), 'module': 'DDD-MIB', 'broken': rng.choice([True, 'exports', 'macro', 'choice'])})
    for f_ in files:
        if not f_.get('garbage') and not f_.get('broken') and rng.random() < 0.2:
            f_['tail'] = 'comment'
        if not f_.get('garbage') and not f_.get('broken') and rng.random() < 0.1:
            f_['head'] = rng.choice([3000, 5000, 9000, 70000])
    seen = set()
    files = [f for f in files if not (f['path'] in seen or seen.add(f['path']))]
    index_dir = None
    if rng.random() < 0.15:
        # one source directory carries an .index file (module name -> file name); its files have names unrelated to
        # the modules they hold, so the index is the only way a reader finds them by module name
        dirs = sorted(set(os.path.dirname(f['path']) for f in files if f.get('module') and not f.get('broken')))
        if dirs:
            index_dir = rng.choice(dirs)
            k2 = 0
            for f_ in files:
                if os.path.dirname(f_['path']) == index_dir and not f_.get('garbage'):
                    k2 += 1
                    f_['path'] = (index_dir + '/' if index_dir else '') + 'idx%d.dat' % k2
    dest = {}
    if rng.random() < 0.5:
        for m in names:
            if rng.random() < 0.5:
                old_ = any(f_.get('module') == m and f_.get('rev') and len(f_['rev']) == 11 and f_['rev'][:2] < '70' for f_ in files)
                norev_ = any(f_.get('module') == m and f_.get('rev') is None and not f_.get('broken') and not f_.get('garbage') for f_ in files)
                dest[m] = {'rev': rng.choice([r for r in REVS if not (norev_ and len(r) == 11 and r[:2] < '70')] + ([] if old_ else [None])), 'tag': rng.choice(['dest', 'd0'])}
    scn = {'tool': 'mibcopy', 'files': files, 'dest': dest, 'orders': [rng.randrange(1 << 30) for _ in range(3)], 'flags': rng.choice([[], [], ['--verbose'], ['--quiet'], ['--ignore-errors']])}
    if rng.random() < 0.12:
        scn['rate'] = {'p': 0.3, 'seed': rng.randrange(1 << 30), 'sites': ['shutil.copy'], 'actions': ['errno']}
    if rng.random() < 0.03:
        scn['usage'] = True
    if index_dir is not None:
        scn['index_dir'] = index_dir
    if rng.random() < 0.15:
        scn['odd_names'] = True
    if rng.random() < 0.2:
        scn['normalised_mtime'] = True        # every file stamped 1980-01-01 (reproducible archives, image layers)
        if rng.random() < 0.6:
            # ... and the destination already holds a copy of a module that a source offers under the same file name,
            # byte for byte as long, in another revision
            cands = [f_ for f_ in files if f_.get('module') and not f_.get('broken') and not f_.get('garbage') and f_.get('rev') and not f_.get('tail')
                     and os.path.dirname(f_['path']) != (index_dir if index_dir is not None else '\0')]
            if cands:
                f_ = rng.choice(cands)
                taken = set(x['path'] for x in files)
                newp = (os.path.dirname(f_['path']) + '/' if os.path.dirname(f_['path']) else '') + f_['module']
                if newp == f_['path'] or newp not in taken:
                    f_['path'] = newp
                    f_['tag'] = 'c7'
                    dest[f_['module']] = {'rev': rng.choice([r for r in REVS if r != f_['rev'] and len(r) == len(f_['rev'])]), 'tag': 'd0'}
    return scn


def revkey(r):
    # RFC 2578: the short form YYMMDDHHMMZ always means 19YY
    return '' if r is None else ('19' + r if len(r) == 11 else r)


def run_mibcopy(scn):
    viol = []

    def V(clause, msg, **facts):
        facts.setdefault('tool', 'mibcopy')
        viol.append({'clause': clause, 'key': '%s|%s' % (clause, facts.get('what', '')), 'facts': facts, 'message': msg})
    finals = []
    events = 0
    fired = {}
    probes = {'mibcopy': 1}
    fps = []
    codes = []
    for oi, order in enumerate(scn['orders']):
        root = core.new_root('c20c')
        try:
            src = os.path.join(root, 'src')
            dst = os.path.join(root, 'dst')
            if scn.get('odd_names'):
                # directory names with characters that URL quoting would escape (the readers hand out file:// paths)
                src = os.path.join(root, 'src dir#1 (v2) 100%41')
                dst = os.path.join(root, 'dst \u00e9#2')
            base = os.path.join(root, 'base')
            contents = {}
            with core.unhooked():
                os.makedirs(src)
                os.makedirs(base)
                for n, txt in basemibs.ALL_BASE.items():
                    with open(os.path.join(base, n), 'w') as f:
                        f.write(txt)
                for fdesc in scn['files']:
                    p = os.path.join(src, fdesc['path'])
                    os.makedirs(os.path.dirname(p), exist_ok=True)
                    if fdesc.get('garbage'):
                        txt = 'this is not a MIB @@@\n'
                    elif fdesc.get('broken'):
                        kindb = fdesc.get('broken')
                        if kindb == 'exports':
                            txt = '%s DEFINITIONS ::= BEGIN\nEXPORTS a, b,\n   c\n' % fdesc['module']      # ends inside EXPORTS
                        elif kindb == 'macro':
                            txt = '%s DEFINITIONS ::= BEGIN\nOBJECT-TYPE MACRO ::=\nBEGIN\n  x y z\n' % fdesc['module']
                        elif kindb == 'choice':
                            txt = '%s DEFINITIONS ::= BEGIN\nXx ::= CHOICE {\n a INTEGER,\n' % fdesc['module']
                        else:
                            txt = mod_text(fdesc['module'], None, 'broken').replace('END', '')
                    else:
                        txt = mod_text(fdesc['module'], fdesc['rev'], fdesc['tag'])
                        if fdesc.get('tail') == 'comment':
                            txt = txt.rstrip('\n') + ' -- the end, no line break'
                        if fdesc.get('head'):
                            # the licence / change log block some vendors put in front of the module header
                            line_ = '-- %s\n' % ('licence terms and change history of this file ' * 2)
                            txt = line_ * (int(fdesc['head']) // len(line_) + 1) + '\n' + txt
                    contents[fdesc['path']] = txt
                    with open(p, 'w') as f:
                        f.write(txt)
                if scn.get('index_dir') is not None:
                    seen_m = set()
                    with open(os.path.join(src, scn['index_dir'], '.index'), 'w') as f:
                        for fdesc in scn['files']:
                            if os.path.dirname(fdesc['path']) == scn['index_dir'] and fdesc.get('module') and not fdesc.get('broken') and fdesc['module'] not in seen_m:
                                seen_m.add(fdesc['module'])
                                f.write('%s %s\n' % (fdesc['module'], os.path.basename(fdesc['path'])))
                if scn['dest']:
                    os.makedirs(dst)
                    for m, dsc in sorted(scn['dest'].items()):
                        with open(os.path.join(dst, m), 'w') as f:
                            f.write(mod_text(m, dsc['rev'], dsc['tag']))
                if scn.get('normalised_mtime'):
                    for top in (src, dst):
                        for dp, dn, fns in core.R.walk(top):
                            for fn in fns:
                                os.utime(os.path.join(dp, fn), (315532800, 315532800))
            argv = ['--mib-source=file://' + base] + list(scn['flags']) + [src, dst]
            if scn.get('usage'):
                argv = ['--mib-source=file://' + base, src]
            w = core.World(root=root, rate=scn.get('rate'), listing_seed=order, clock=core.EPOCH0)
            core.patch_pysmi()
            cap = _Capture()
            with w:
                w.begin_op(0, 'mibcopy')
                code, err = run_script(MIBCOPY, argv, w, cap)
                w.end_op(str(code))
            events += len(w.log)
            codes.append(code)
            for k2, v in w.fired.items():
                fired[k2] = fired.get(k2, 0) + v
            for k2, v in w.probes.items():
                probes[k2] = probes.get(k2, 0) + v
            final = {}
            with core.unhooked():
                if os.path.isdir(dst):
                    for fn in sorted(os.listdir(dst)):
                        with open(os.path.join(dst, fn)) as f:
                            final[fn] = f.read()
            finals.append(final)
            fps.append(w.fingerprints(extra=sorted(final.items())))
            if isinstance(code, str):
                V('C20.0-no-traceback', 'mibcopy died with %s: %s' % (code, err[-300:].replace('\n', ' | ')), what='traceback', exception=code[4:], faulted=bool(w.fired))
                continue
            if scn.get('usage'):
                if code != 64:
                    V('C20.1-exit-code', 'mibcopy usage error gave exit code %r' % code, what='usage-exit')
                continue
            failed_copy = set()
            for ev in w.log:
                if ev[4] == 'shutil.copy' and str(ev[7]).startswith('fault'):
                    failed_copy.add(os.path.basename(ev[5]))
            # oracle: per module, the destination holds a copy with the maximal revision
            bymod = {}
            for fdesc in scn['files']:
                if fdesc.get('garbage') or fdesc.get('broken'):
                    continue
                bymod.setdefault(fdesc['module'], []).append((revkey(fdesc['rev']), contents[fdesc['path']], fdesc['path']))
            for m, dsc in scn['dest'].items():
                bymod.setdefault(m, []).append((revkey(dsc['rev']), mod_text(m, dsc['rev'], dsc['tag']), '<dest>'))
            for m, copies in sorted(bymod.items()):
                if m in failed_copy:
                    probes['copy-fault-module-not-judged'] = probes.get('copy-fault-module-not-judged', 0) + 1
                    continue
                best = max(c[0] for c in copies)
                ok = [c[1] for c in copies if c[0] == best]
                got = final.get(m)
                norev_only = best == ''
                if got is None:
                    V('C20.5-mibcopy-latest', 'module %s was seen in the sources but is absent from the destination' % m, what='absent',
                      no_revision=norev_only, dest_prepopulated=m in scn['dest'])
                elif got not in ok:
                    have = [c for c in copies if c[1] == got]
                    V('C20.5-mibcopy-latest', 'destination copy of %s has revision %r, the latest seen is %r' % (m, have[0][0] if have else '?', best),
                      what='not-latest' if have else 'foreign-content', no_revision=any(c[0] == '' for c in copies), order=oi)
            extra = [fn for fn in final if fn not in bymod]
            if extra:
                V('C20.5-mibcopy-latest', 'unexpected files in the destination: %s' % extra, what='extra-files')
        finally:
            core.drop_root(root)
    if not fired and len(finals) == len(scn['orders']) and not scn.get('usage'):
        for i in range(1, len(finals)):
            if finals[i] != finals[0]:
                diff = sorted(k for k in set(finals[0]) | set(finals[i]) if finals[0].get(k) != finals[i].get(k))
                V('C20.6-mibcopy-order', 'destination differs between visiting orders 0 and %d for %s' % (i, diff), what='order-dependent',
                  no_revision=any(f.get('rev') is None and not f.get('garbage') and not f.get('broken') for f in scn['files']))
                break
    pat = sorted(set(('norev' if f.get('rev') is None else 'rev') for f in scn['files'] if not f.get('garbage') and not f.get('broken')))
    import hashlib
    fp = hashlib.sha256(json.dumps([f[0] for f in fps]).encode()).hexdigest()[:32]
    fph = hashlib.sha256(json.dumps([f[1] for f in fps]).encode()).hexdigest()[:32]
    return {'violations': viol, 'sig': json.dumps(['mibcopy', pat, len(scn['files']), sorted(scn['dest']), [str(c) for c in codes], sorted(fired), scn['flags']]),
            'nontrivial': True, 'events': events, 'sim_s': 0, 'fired': fired, 'probes': probes, 'fp': fp, 'fph': fph,
            'comps': {'mibcopy(real script)': len(scn['orders'])}, 'code': codes}


# ==========================================================================
def run(scn):
    if scn.get('fast_tables'):
        # the scripts build a parser per run (mibcopy: per file); in these worlds PLY loads the LALR tables it wrote
        # once per process instead of recomputing them (an installation with a readable table module)
        from verif.engines.history_sim import fast_tables
        with fast_tables():
            out = run_mibdump(scn) if scn['tool'] == 'mibdump' else run_mibcopy(scn)
        out.setdefault('probes', {})['parser-tables-loaded-not-recomputed'] = 1
        return out
    return run_mibdump(scn) if scn['tool'] == 'mibdump' else run_mibcopy(scn)


def generate(rng, tier):
    scn = gen_mibdump(rng, tier) if rng.random() < 0.6 else gen_mibcopy(rng, tier)
    if rng.random() < 0.8:
        scn['fast_tables'] = True
    return scn


def shrink(scn):
    if scn.get('rate'):
        s = copy.deepcopy(scn)
        s.pop('rate')
        yield s
    if scn.get('faults'):
        s = copy.deepcopy(scn)
        s.pop('faults')
        yield s
    for k in ('index_dir', 'normalised_mtime', 'fast_tables', 'odd_names', 'blockdir'):
        if k in scn:
            s = copy.deepcopy(scn)
            s.pop(k)
            yield s
    if scn['tool'] == 'mibdump':
        for i in range(len(scn['flags'])):
            s = copy.deepcopy(scn)
            del s['flags'][i]
            yield s
        for k in ('stubs', 'borrow'):
            if scn.get(k):
                s = copy.deepcopy(scn)
                s.pop(k)
                yield s
        if len(scn['requested']) > 1:
            for i in range(len(scn['requested'])):
                s = copy.deepcopy(scn)
                del s['requested'][i]
                yield s
        for m in sorted(scn['modules']):
            if len(scn['modules']) > 1 and m not in scn['requested']:
                s = copy.deepcopy(scn)
                del s['modules'][m]
                s['fnames'].pop(m, None)
                for sp in s['modules'].values():
                    sp['imports'] = [x for x in sp['imports'] if x != m]
                    if sp.get('oidparent') == m:
                        sp['oidparent'] = None
                yield s
        for m, sp in sorted(scn['modules'].items()):
            if sp.get('variant', 'ok') != 'ok':
                s = copy.deepcopy(scn)
                s['modules'][m]['variant'] = 'ok'
                yield s
            if scn['fnames'].get(m) != m:
                s = copy.deepcopy(scn)
                s['fnames'][m] = m
                yield s
        if scn['dest'] != 'empty':
            s = copy.deepcopy(scn)
            s['dest'] = 'empty'
            yield s
        if scn['format'] == 'pysnmp':
            s = copy.deepcopy(scn)
            s['format'] = 'json'
            s['flags'] = [f for f in s['flags'] if f != '--no-python-compile']
            yield s
    else:
        for i in range(len(scn['files'])):
            if len(scn['files']) > 1:
                s = copy.deepcopy(scn)
                del s['files'][i]
                yield s
        for m in sorted(scn['dest']):
            s = copy.deepcopy(scn)
            del s['dest'][m]
            yield s
        if scn['flags']:
            s = copy.deepcopy(scn)
            s['flags'] = []
            yield s
        for i, f in enumerate(scn['files']):
            if '/' in f['path']:
                s = copy.deepcopy(scn)
                s['files'][i]['path'] = os.path.basename(f['path'])
                if s['files'][i]['path'] not in [x['path'] for x in scn['files']]:
                    yield s


def size(scn):
    if scn['tool'] == 'mibdump':
        return {'modules': len(scn['modules']), 'flags': len(scn['flags'])}
    return {'files': len(scn['files']), 'dest': len(scn['dest'])}


def describe(scn, out):
    d = {k: v for k, v in scn.items() if k not in ('_world',)}
    if 'modules' in d:
        d = dict(d)
        d['modules'] = {n: {k: v for k, v in s.items() if k in ('imports', 'variant')} for n, s in d['modules'].items()}
    return {'scenario': d, 'exit': out.get('code'), 'statuses': out.get('statuses'), 'faults_fired': out.get('fired')}
