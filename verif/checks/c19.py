"""C19 - borrowing happens only for modules that cannot be compiled, and
verbatim.  Layer 1: compile-sim (real AnyFileBorrower around simulated
readers).  Layer 2: real PyFileBorrower / AnyFileBorrower over the real
FileReader in fs-sim directories holding every extension variant."""
import copy
import os

from verif.engines import compile_sim as cs
from verif.checks import c09
from verif.gen import mibgen
from verif.sim import core

PROPERTY = 'C19'
ENGINE = 'compile-sim + fs-sim'
ENV_VARIANTS = ['locale-C-ascii']
ENV_N = 600
LEVEL = 'exploration'
QUICK_S = 40
THOROUGH_S = 420
CHUNK = 40
REAL_COMPONENTS = ['pysmi.compiler.MibCompiler.compile', 'parser', 'SymtableCodeGen', 'JsonCodeGen', 'pysmi.borrower.AnyFileBorrower / PyFileBorrower',
                   'pysmi.reader.FileReader (layer 2)']
STUB_COMPONENTS = ['sources', 'searchers', 'borrower readers (layer 1: answer table)', 'writer', 'injected package errors']
RULE = ('layer 1: seeded compile() worlds with 1-3 borrowers of both flavours holding random subsets, failures planted in every stage, noDeps/genTexts/ignoreErrors subsets; '
        'layer 2: directories with every extension variant of the module name read through the real borrowers; '
        'distinct = distinct (status multiset, options, faults, component counts, borrower flavours); non-trivial = a borrower was consulted or a fault fired')
ASSUMPTIONS = ['multi-module files are taken or refused as a whole (after the D18 repair)']


def judge(t):
    viol = []
    scn = t.scn
    R = t.R
    opts = scn.get('options', {})

    cores = set()      # (D18 is repaired: no name is exempt any more)

    def V(clause, msg, **facts):
        if facts.get('module') in cores:
            t.world.probe('not-judged:D18-coresident')
            return
        facts.pop('module', None)
        viol.append({'clause': clause, 'key': '%s|%s' % (clause, facts.get('what', '')), 'facts': facts, 'message': msg})

    if t.escaped is not None or not isinstance(R, dict):
        t.world.probe('not-judged:compile-raised')
        return viol
    want_texts = bool(opts.get('genTexts'))
    nb = len(scn.get('borrowers', ()))
    # failure set before the borrow stage, from H
    fetch_ok, fetch_tried = set(), set()
    attempts = []
    for c in t.calls:
        if c.site == 'src.getData':
            attempts.append({'name': c.mib, 'ok': c.ok, 'mods': []})
            fetch_tried.add(c.mib)
        elif c.site == 'parser.parse' and attempts:
            attempts[-1]['ok'] = attempts[-1]['ok'] and c.ok and bool(c.res)
        elif c.site == 'symtab.genCode' and attempts:
            attempts[-1]['ok'] = attempts[-1]['ok'] and c.ok
            if c.ok:
                attempts[-1]['mods'].append(c.mib)
    for a in attempts:
        if a['ok']:
            fetch_ok.add(a['name'])
            fetch_ok.update(a['mods'])
    # a module of a fetched file that never got through the symbol-table stage is a failure under its own name
    # (a module of a fetched file that fails the symbol-table stage is booked by pysmi under the name the file was
    # fetched as; eligibility for borrowing is judged for that name)
    if not scn.get('sources'):
        fetch_tried.update(scn['requested'])
    gen_ok = set(c.mib for c in t.by('codegen.genCode') if c.ok)
    gen_fail = set(c.mib for c in t.by('codegen.genCode') if not c.ok)
    failed_before = (fetch_tried - fetch_ok) | gen_fail
    requested = set(scn['requested'])
    # modules that came in a file fetched under a requested name count as explicitly requested
    requested |= set(m for a_ in cs.attempts_of(t) if a_['ok'] and a_['name'] in requested for (m, _x, _y) in a_['mods'])
    noDeps = bool(opts.get('noDeps'))
    bcalls = t.by('borrower.getData')
    rcalls = t.by('breader.getData')
    # 1. only for modules that could not be found or compiled
    for c in bcalls:
        if c.mib in gen_ok:
            V('C19.1-only-failed', 'borrower %d asked for %s although code was generated for it' % (c.comp, c.mib), what='asked-for-compiled', module=c.mib)
        elif c.mib not in failed_before:
            V('C19.1-only-failed', 'borrower %d asked for %s which did not fail' % (c.comp, c.mib), what='asked-for-unfailed', module=c.mib)
    # 2. flavour, order, stop at first supplier
    for c in rcalls:
        fl = bool(scn['borrowers'][c.comp].get('genTexts'))
        if fl != want_texts:
            V('C19.2-flavour-order', 'reader of borrower %d (texts=%s) consulted for a request with texts=%s' % (c.comp, fl, want_texts), what='flavour')
        if bool(c.kw.get('genTexts')) != want_texts:
            V('C19.2-flavour-order', 'borrower reader received genTexts=%r for a request with %r' % (c.kw.get('genTexts'), want_texts), what='flavour-arg')
    per = {}
    for c in bcalls:
        per.setdefault(c.mib, []).append(c)
    for m, cl in sorted(per.items()):
        comps = [c.comp for c in cl]
        if comps != list(range(len(comps))):
            V('C19.2-flavour-order', 'borrowers for %s consulted in order %s' % (m, comps), what='order')
        for i, c in enumerate(cl):
            if c.ok and i != len(cl) - 1:
                V('C19.2-flavour-order', 'borrower %d supplied %s, yet borrower %d was consulted too' % (c.comp, m, cl[i + 1].comp), what='not-first')
        if not cl[-1].ok and len(cl) < nb:
            V('C19.2-flavour-order', 'borrowing of %s stopped after borrower %d without success (%d borrowers)' % (m, cl[-1].comp, nb), what='gave-up-early')
    # ground truth from the scenario: a borrower that holds a healthy copy of the module in the requested flavour supplies
    # it when it is asked - whatever happened to other modules at that borrower before
    if not scn.get('realfs'):
        for c in bcalls:
            if not isinstance(c.comp, int) or c.comp >= nb or c.ok or getattr(c, 'injected', False):
                continue
            b_ = scn['borrowers'][c.comp]
            if b_.get('holds', {}).get(c.mib) != 'ok' or bool(b_.get('genTexts')) != want_texts:
                continue
            if any(rc.comp == c.comp and rc.mib == c.mib and (getattr(rc, 'injected', False) or not rc.ok) for rc in rcalls):
                continue        # the look-up itself was disturbed
            V('C19.2-flavour-order', 'borrower %d holds a copy of %s in the requested flavour, was asked for it and answered %s' % (c.comp, c.mib, type(c.exc).__name__),
              what='holder-did-not-supply', earlier_errors=sorted(set(x.mib for x in rcalls if x.comp == c.comp and not x.ok and x.seq < c.seq
                                                                      and type(x.exc).__name__ not in ('PySmiReaderFileNotFoundError',)))[:3])
    # 5. who is eligible
    for m in sorted(failed_before):
        eligible = (not noDeps) or (m in requested)
        if eligible and nb and m not in per:
            V('C19.5-eligible', 'failed module %s (requested=%s, noDeps=%s) was never offered to the borrowers' % (m, m in requested, noDeps),
              what='requested-not-offered' if m in requested else 'not-offered', noDeps=noDeps)
        if not eligible and m in per:
            V('C19.5-eligible', 'dependency %s was offered to the borrowers although dependencies are being skipped' % m, what='dependency-offered')
    # 3./4. verbatim, status, not a failure any more
    supplied = {}
    for c in bcalls:
        if c.ok and c.mib not in supplied:
            supplied[c.mib] = c
    fresh = set(c.mib for c in t.by('searcher.fileExists') if c.exc is not None and type(c.exc).__name__ == 'PySmiFileNotModifiedError')
    puts = {}
    for c in t.by('writer.putData'):
        puts.setdefault(c.mib, []).append(c)
    gen_text = dict((c.mib, c.res[1]) for c in t.by('codegen.genCode') if c.ok)
    for m, c in sorted(supplied.items()):
        if m in gen_ok:
            continue
        s = str(R.get(m))
        if m in fresh:
            if s != 'untouched':
                V('C19.3-verbatim', 'borrowed %s has a fresh copy at the destination but is reported %s' % (m, s), what='fresh-status')
            continue
        if s not in ('borrowed', 'unprocessed', 'failed'):
            V('C19.3-verbatim', 'module %s was supplied by borrower %d but is reported %s' % (m, c.comp, s), what='status', status=s, module=m)
        if s == 'failed' and not any(not p.ok for p in puts.get(m, [])):
            V('C19.3-verbatim', 'module %s was supplied by borrower %d but still counts as failed' % (m, c.comp), what='still-failed')
        for p in puts.get(m, []):
            if p.kw.get('data') != c.res[1]:
                V('C19.3-verbatim', 'text written for borrowed %s is not the borrower\'s text' % m, what='not-verbatim')
        # ground truth for time-comparing searchers: a stored copy that is not older than the borrower's copy makes borrowing unnecessary
        if not opts.get('rebuild') and isinstance(c.res, tuple):
            bm = getattr(c.res[0], 'mtime', None)
            newer = [i_ for i_, se in enumerate(scn.get('searchers', ())) if se.get('flavour') == 'age' and se.get('have', {}).get(m) is not None and bm is not None and se['have'][m] >= bm]
            disturbed = any(x.mib == m and (x.injected or type(x.exc).__name__ not in ('NoneType', 'PySmiFileNotModifiedError', 'PySmiFileNotFoundError')) for x in t.by('searcher.fileExists'))
            if newer and not disturbed and (puts.get(m) or s == 'borrowed'):
                V('C19.3-verbatim', 'searcher %d holds a copy of %s that is not older than the borrower\'s (%s >= %s), yet the borrowed copy was %s' % (
                    newer[0], m, scn['searchers'][newer[0]]['have'][m], bm, 'written' if puts.get(m) else 'reported borrowed'), what='borrowed-over-fresher-copy', module=m)
        if s == 'borrowed' and opts.get('writeMibs', True) and not any(p.ok for p in puts.get(m, [])):
            # "written verbatim under the module's name with status borrowed": the status says the copy was stored
            V('C19.3-verbatim', 'module %s is reported borrowed but its copy was never handed to the writer successfully' % m, what='borrowed-not-stored', module=m)
    for m, pl in sorted(puts.items()):
        if m in gen_text:
            for p in pl:
                if p.kw.get('data') != gen_text[m]:
                    V('C19.4-compiled-wins', 'module %s compiled successfully but something else was written' % m, what='replaced', module=m)
            if str(R.get(m)) == 'borrowed':
                V('C19.4-compiled-wins', 'module %s compiled successfully but is reported borrowed' % m, what='status-borrowed', module=m)
    # borrowed modules no longer count as failures: if nothing else failed, things get written
    F, B, _fresh = c09.failure_sets(t)
    if not scn.get('sources'):
        F.update(x for x in scn['requested'] if x not in supplied)
    if 'NO-SUCH-MIB' in requested and 'NO-SUCH-MIB' not in supplied:
        F.add('NO-SUCH-MIB')
    if not F and not cores and opts.get('writeMibs', True) and not scn.get('writer_fail') and not any(c.site == 'writer.putData' and not c.ok for c in t.calls):
        for m, c in sorted(supplied.items()):
            if m in gen_ok or m in fresh:
                continue
            if str(R.get(m)) != 'borrowed' or not any(p.ok for p in puts.get(m, [])):
                V('C19.3-verbatim', 'borrowed %s was not written/reported borrowed (%s) although no failure remains' % (m, R.get(m)), what='borrowed-not-written')
    # ... and then nothing else is held back either: every module that was generated gets written
    if not F and not cores and opts.get('writeMibs', True) and not scn.get('writer_fail') and not any(c.site == 'writer.putData' and not c.ok for c in t.calls):
        for m in sorted(gen_ok):
            if m in supplied and m not in gen_text:
                continue
            if str(R.get(m)) != 'compiled':
                V('C19.3-verbatim', 'no failure remains after borrowing, yet generated module %s is reported %s' % (m, R.get(m)), what='built-held-back', status=str(R.get(m)), module=m)
    if bcalls:
        t.world.probe('borrower-consulted')
    if supplied:
        t.world.probe('module-borrowed')
    return viol


def run(scn):
    if scn.get('layer') == 3:
        return run_layer3(scn)
    if scn.get('layer') == 2:
        return run_layer2(scn)
    t = cs.run_world(scn)
    viol = judge(t)
    if t.second is not None:
        for v in judge(t.second):
            v['key'] += '|second-call'
            v['facts']['call'] = 2
            v['message'] = 'second compile() on the same compiler: ' + v['message']
            viol.append(v)
    nontriv = bool(t.by('borrower.getData')) or bool(t.world.fired)
    return cs.outcome(t, viol, nontrivial=nontriv, extra_sig=[[b.get('genTexts') for b in scn.get('borrowers', ())]])


# --------------------------------------------------------------------------
# layer 3: borrowers as the command-line tool sets them up (several --mib-borrower options, some repeated, the
# --generate-mib-texts switch somewhere among them: a borrower's flavour is the state of the switch where it is named)
# --------------------------------------------------------------------------
def gen_layer3(rng, tier):
    nb = rng.choice([2, 2, 3])
    items = [('b', i) for i in range(nb)]
    if rng.random() < 0.6:
        items.append(('b', rng.randrange(nb)))        # the same directory named twice
    if rng.random() < 0.7:
        items.append(('texts', None))
    rng.shuffle(items)
    holds = [rng.random() < 0.55 for _ in range(nb)]
    return {'layer': 3, 'items': items, 'holds': holds, 'variant': rng.choice(['lex', 'syntax', 'cut', 'badref']), 'listing_seed': rng.randrange(1 << 30)}


def run_layer3(scn):
    from verif.checks import c20
    from verif.gen import basemibs
    root = core.new_root('c19s')
    viol = []

    def V(clause, msg, **facts):
        viol.append({'clause': clause, 'key': '%s|%s' % (clause, facts.get('what', '')), 'facts': facts, 'message': msg})
    try:
        src, dst = os.path.join(root, 'src'), os.path.join(root, 'dst')
        spec = {'name': 'AAA-MIB', 'imports': [], 'oidparent': None, 'arc': 48, 'identity': True, 'nobj': 1, 'arcs': [1], 'compliance': False, 'variant': scn['variant']}
        bdirs = [os.path.join(root, 'bor%d' % i) for i in range(len(scn['holds']))]
        with core.unhooked():
            os.makedirs(src)
            for n, txt in basemibs.ALL_BASE.items():
                with open(os.path.join(src, n), 'w') as f:
                    f.write(txt)
            with open(os.path.join(src, 'AAA-MIB'), 'w') as f:
                f.write(mibgen.render(spec, {'AAA-MIB': spec}))
            for i, d in enumerate(bdirs):
                os.makedirs(d)
                if scn['holds'][i]:
                    with open(os.path.join(d, 'AAA-MIB.json'), 'w') as f:
                        f.write('{"borrowed": "AAA-MIB", "from": %d}\n' % i)
        argv = ['--mib-source=file://' + src, '--mib-searcher=nosuchpkg_sim', '--destination-directory=' + dst, '--destination-format=json']
        texts = False
        flav = []
        for kind, i in scn['items']:
            if kind == 'texts':
                argv.append('--generate-mib-texts')
                texts = True
            else:
                argv.append('--mib-borrower=' + bdirs[i])
                flav.append((i, texts))
        argv.append('AAA-MIB')
        w = core.World(root=root, listing_seed=scn.get('listing_seed'), clock=core.EPOCH0)
        core.patch_pysmi()
        cap = c20._Capture()
        with w:
            w.begin_op(0, 'mibdump')
            code, err = c20.run_script(c20.MIBDUMP, argv, w, cap)
            w.end_op(str(code))
        R = cap.maps[-1] if cap.maps else {}
        # ground truth: the first borrower, in the order named, whose flavour equals the request's and which holds the module
        want = [i for (i, fl) in flav if fl == texts and scn['holds'][i]]
        got = core.read_bytes(os.path.join(dst, 'AAA-MIB.json'))
        st = str(R.get('AAA-MIB'))
        if isinstance(code, str):
            V('C19.2-flavour-order', 'mibdump died with %s' % code, what='script-died')
        elif want:
            exp = ('{"borrowed": "AAA-MIB", "from": %d}\n' % want[0]).encode()
            if st != 'borrowed' or got != exp:
                V('C19.2-flavour-order', 'borrower directory %d (named %s --generate-mib-texts, request %s texts) holds the module; status %s, stored copy %r' % (
                    want[0], 'after' if texts else 'without', 'with' if texts else 'without', st, got), what='script-borrower-not-used')
        else:
            if st == 'borrowed' or got is not None:
                V('C19.2-flavour-order', 'no borrower of the requested flavour holds the module, yet it is %s (stored %r)' % (st, got), what='script-wrong-flavour-used')
        fp, fph = w.fingerprints(extra=[st, code])
        return {'violations': viol, 'sig': 'L3|%s|%s|%s' % (st, bool(want), [k for k, _ in scn['items']]), 'nontrivial': True, 'events': len(w.log), 'sim_s': 0,
                'fired': {}, 'probes': {'layer3-script-borrowers': 1}, 'fp': fp, 'fph': fph, 'comps': {'mibdump(real script)': 1}}
    finally:
        core.drop_root(root)


def generate(rng, tier):
    r_ = rng.random()
    if r_ < 0.015:
        return gen_layer3(rng, tier)
    if r_ < 0.25:
        return gen_layer2(rng, tier)
    scn = cs.gen_world(rng, tier, focus='C19')
    if rng.random() < 0.6:
        scn['files'] = {k: v for k, v in scn['files'].items() if k in scn.get('file_alias', {})}
        scn.pop('co_only', None)
    if rng.random() < 0.4:
        scn['options']['noDeps'] = True
    return scn


def shrink(scn):
    if scn.get('layer') == 3:
        return iter(())
    if scn.get('layer') == 2:
        return shrink_layer2(scn)
    return cs.shrink_world(scn)


def size(scn):
    if scn.get('layer') == 3:
        return {'argv-items': len(scn.get('items', []))}
    if scn.get('layer') == 2:
        return {'files': len(scn.get('tree', {}))}
    return cs.size(scn)


def describe(scn, out):
    if scn.get('layer') == 3:
        return {'scenario': {k: v for k, v in scn.items() if k != '_world'}}
    if scn.get('layer') == 2:
        return {'scenario': {k: v for k, v in scn.items() if k != '_world'}, 'result': out.get('result')}
    return cs.describe(scn, out)


# --------------------------------------------------------------------------
# layer 2: real borrowers over directories with every extension variant
# --------------------------------------------------------------------------
EXT_VARIANTS = ['', '.py', '.json', '.txt', '.mib', '.my', '.pyc', '.PY', '.JSON']


def gen_layer2(rng, tier):
    name = rng.choice(['AAA-MIB', 'Foo-Mib', 'bar'])
    tree = {}
    for ext in EXT_VARIANTS:
        for nm in sorted(set([name, name.upper(), name.lower()])):
            if rng.random() < 0.45:
                tree[nm + ext] = 'content of %s%s' % (nm, ext)
    kind = rng.choice(['py', 'json', 'anyjson-upper', 'anydefault'])
    cap = None
    if rng.random() < 0.3:
        # a size limit on the borrower's reader; copies around the limit, with multi-byte characters early on
        cap = rng.choice([16, 24, 40])
        for fn in list(tree):
            if rng.random() < 0.7:
                tree[fn] = ('\u00e9\u6f22 ' * 3 + 'content of %s ' % fn) * rng.choice([1, 1, 2, 3])
    if rng.random() < 0.35:
        # byte-level oddities a verbatim copy must preserve: byte order mark, CR LF, no final line break, blanks at both ends
        for fn in list(tree):
            r_ = rng.random()
            if r_ < 0.3:
                tree[fn] = '\ufeff' + tree[fn] + '\n'
            elif r_ < 0.5:
                tree[fn] = tree[fn].replace(' ', '\r\n') + '\r\n'
            elif r_ < 0.65:
                tree[fn] = '\n\n  ' + tree[fn] + ' \t\n\n'
            elif r_ < 0.75:
                tree[fn] = tree[fn] + '\x0c\x00\u2028 end'
    bigpad = None
    if cap is None and rng.random() < 0.08:
        # pre-compiled modules of some hundred kilobytes with multi-byte characters all the way through (the with-texts
        # flavour of a large MIB): however the reader cuts its input into pieces, the copy is the file
        bigpad = rng.choice([14000, 27000, 40000, 55000])
    return {'layer': 2, 'name': name, 'tree': tree, 'kind': kind, 'cap': cap, 'bigpad': bigpad, 'genTexts': rng.random() < 0.5, 'req_texts': rng.random() < 0.5,
            'late_flavour': rng.random() < 0.35, 'symlink_sub': rng.random() < 0.2,
            'lowcase': rng.random() < 0.5, 'listing_seed': rng.randrange(1 << 30),
            'rate': {'p': 0.05, 'seed': rng.randrange(1 << 30), 'sites': ['os.stat', 'open', 'file.read', 'os.listdir']} if rng.random() < 0.3 else None}


def _l2_content(scn, fn):
    c = scn['tree'].get(fn)
    if c is not None and scn.get('bigpad'):
        c = c + '\n' + '\u00e9\u6f22' * int(scn['bigpad']) + '\n'
    return c


def run_layer2(scn):
    from pysmi import error
    from pysmi.borrower import AnyFileBorrower, PyFileBorrower
    from pysmi.reader.localfile import FileReader
    root = core.new_root('c19')
    viol = []

    def V(clause, msg, **facts):
        viol.append({'clause': clause, 'key': '%s|%s' % (clause, facts.get('what', '')), 'facts': facts, 'message': msg})
    try:
        d = os.path.join(root, 'borrow')
        with core.unhooked():
            os.makedirs(d)
            fd_ = d
            if scn.get('symlink_sub'):
                # the pre-transformed files are kept elsewhere and reached through a symbolic link below the borrower's directory
                fd_ = os.path.join(root, 'store')
                os.makedirs(fd_)
                os.symlink(fd_, os.path.join(d, 'current'))
            for fn, content in sorted(scn['tree'].items()):
                with open(os.path.join(fd_, fn), 'w', encoding='utf-8', newline='') as f:
                    f.write(_l2_content(scn, fn))
        w = core.World(root=root, rate=scn.get('rate'), listing_seed=scn.get('listing_seed'))
        reader = FileReader(d)
        if scn['kind'] == 'py':
            b = PyFileBorrower(reader) if scn.get('late_flavour') else PyFileBorrower(reader, genTexts=scn['genTexts'])
            exts = ['.py']
        elif scn['kind'] == 'anydefault':
            # no extension configured: this borrower has nothing to offer (in particular not the extension-less ASN.1 file)
            b = AnyFileBorrower(reader) if scn.get('late_flavour') else AnyFileBorrower(reader, genTexts=scn['genTexts'])
            exts = []
        else:
            b = (AnyFileBorrower(reader) if scn.get('late_flavour') else AnyFileBorrower(reader, genTexts=scn['genTexts'])).setOptions(exts=['.json'])
            exts = ['.json']
        if scn.get('late_flavour'):
            b.setOptions(genTexts=scn['genTexts'])      # the flavour is an option like the others
        if not scn.get('lowcase'):
            b.setOptions(lowcaseMatching=False)
        if scn.get('cap'):
            reader.setOptions(maxMibSize=scn['cap'])
        res = None
        with w:
            w.begin_op(0, 'borrow')
            try:
                info, data = b.getData(scn['name'], genTexts=scn['req_texts'])
                res = ('ok', info.file, data)
            except error.PySmiError as e:
                res = ('pkgerror', type(e).__name__, None)
            except BaseException as e:  # noqa
                res = ('foreign', type(e).__name__, None)
            w.end_op(res[0])
        if res[0] == 'foreign' and not w.fired:
            V('C19.6-extensions', 'borrower raised %s' % res[1], what='foreign-exception', exception=res[1])
        if res[0] == 'ok':
            fn = res[1]
            if scn['genTexts'] != scn['req_texts']:
                V('C19.2-flavour-order', 'borrower of flavour texts=%s served a request for texts=%s' % (scn['genTexts'], scn['req_texts']), what='flavour-real')
            if not any(fn.endswith(e) for e in exts):
                V('C19.6-extensions', 'borrower with extensions %s returned file %s' % (exts, fn), what='wrong-extension', file=fn)
            stem = fn[:-len(exts[0])] if exts and fn.endswith(exts[0]) else fn
            if stem.lower() != scn['name'].lower() and stem.lower() not in (scn['name'].lower() + '-mib', scn['name'].lower().replace('-mib', '')):
                V('C19.6-extensions', 'borrower returned unrelated file %s for %s' % (fn, scn['name']), what='unrelated', file=fn)
            if _l2_content(scn, fn) != res[2]:
                V('C19.3-verbatim', 'borrowed text differs from the file content', what='content', big=bool(scn.get('bigpad')))
        elif res[0] == 'pkgerror' and not w.fired and scn['genTexts'] == scn['req_texts'] and not scn.get('cap'):
            # must find it when an exact-name file with the right extension exists
            if exts and (scn['name'] + exts[0]) in scn['tree']:
                V('C19.6-extensions', 'borrower did not find existing %s%s (%s)' % (scn['name'], exts[0], res[1]), what='not-found')
        fp, fph = w.fingerprints(extra=[res[0], res[1]])
        return {'violations': viol, 'sig': 'L2|%s|%s|%s|%s|%s' % (scn['kind'], res[0], res[1], scn['genTexts'] == scn['req_texts'], sorted(w.fired)),
                'nontrivial': True, 'events': len(w.log), 'sim_s': 0, 'fired': dict(w.fired), 'probes': {'layer2': 1, 'layer2:' + res[0]: 1},
                'fp': fp, 'fph': fph, 'comps': {'borrower.getData(real)': 1}, 'result': list(res[:2])}
    finally:
        core.drop_root(root)


def shrink_layer2(scn):
    if scn.get('rate'):
        s = copy.deepcopy(scn)
        s['rate'] = None
        yield s
    for fn in sorted(scn['tree']):
        s = copy.deepcopy(scn)
        del s['tree'][fn]
        yield s
