"""C10 - up-to-date modules are not regenerated; rebuild, noDeps, stubs act
as documented.  Three layers:
 (a) orchestration in compile-sim (searcher answer tables incl. errors),
 (b) the real file searchers over fs-sim with a virtual clock: complete
     product of destination populations x mtime relation x rebuild, then a
     fault sweep over every interposed call,
 (c) end-to-end histories: real FileReader + FileWriter + AnyFileSearcher on
     one scratch tree with touch / clock-advance / compile operations."""
import copy
import importlib
import json
import os
import struct
import sys
import time

from verif.engines import compile_sim as cs
from verif.gen import basemibs, mibgen
from verif.sim import core

PROPERTY = 'C10'
ENGINE = 'compile-sim + fs-sim'
LEVEL = 'exploration'
QUICK_S = 45
THOROUGH_S = 480
CHUNK = 30
REAL_COMPONENTS = ['pysmi.compiler.MibCompiler.compile', 'parser', 'SymtableCodeGen', 'JsonCodeGen', 'pysmi.searcher.StubSearcher',
                   'pysmi.searcher.AnyFileSearcher / PyFileSearcher / PyPackageSearcher (layers b, c)', 'pysmi.reader.FileReader / ZipReader / HttpReader (source ages from st_mtime, ZIP local-time fields, Last-Modified), pysmi.writer.FileWriter (layer c)']
STUB_COMPONENTS = ['searcher answer tables (layer a)', 'web server behind HttpReader (simulated responder at urlopen, no socket; layer c)', 'process time zone (chosen per world: UTC, CET/CEST, EST/EDT, IST)', 'sources/borrowers/writer (layer a)', 'clock (virtual; file mtimes stamped from it)', 'stat/open/read errno and vanish faults']
RULE = ('(a) seeded compile() worlds with 1-3 searchers answering fresh/stale/error per module, file-like and stub-like, rebuild/noDeps subsets; '
        '(b) product {AnyFileSearcher(.json), PyFileSearcher, PyPackageSearcher} x destination population {none, file at t-1/t/t+1, directory} x legacy .pyc {none, header time t-1/t/t+1, bad magic} '
        'x distractors x rebuild, each also with every (interposed call, errno/vanish) fault; (c) histories of compile/touch/advance - some compile calls killed at an interposed call (the next call is a new process that has only the durable state) - over directory, ZIP (time-zone worlds) and HTTP sources (Last-Modified present or absent, time-zone worlds); '
        'distinct = distinct (layer, searcher, population, relation, rebuild, fault, answer) or status signature; non-trivial = all of layer b/c, layer a with >=1 searcher')
ASSUMPTIONS = ['mtimes have one-second resolution (pysmi reads st[8]); the clock is virtual and integer',
               'PyPackageSearcher is exercised on its package-directory branch; the egg/zipimport branch depends on a private zipimporter attribute and is not simulated']
SWEEP_SET = {'quick': 'layer (b) product, fault-free and single-fault', 'thorough': 'same'}


# ==========================================================================
# layer (a)
# ==========================================================================
def judge_a(t):
    viol = []
    scn = t.scn
    R = t.R
    opts = scn.get('options', {})

    def V(clause, msg, **facts):
        viol.append({'clause': clause, 'key': '%s|%s' % (clause, facts.get('what', '')), 'facts': facts, 'message': msg})

    if t.escaped is not None or not isinstance(R, dict):
        t.world.probe('not-judged:compile-raised')
        return viol
    nse = len(scn.get('searchers', ()))
    rebuild = bool(opts.get('rebuild'))
    noDeps = bool(opts.get('noDeps'))
    # modules that made it through parse + symtab, with the mtime of the file they came from
    parsed = {}
    last_info = None
    pending = []
    for c in t.calls:
        if c.site == 'src.getData':
            last_info = c.res[0] if c.ok else None
            pending = []
        elif c.site == 'symtab.genCode' and last_info is not None:
            if c.ok:
                pending.append((c.mib, (last_info, c.ctx)))
            else:
                pending, last_info = [], None      # the file is refused as a whole
        if c.site != 'symtab.genCode' or not c.ok:
            continue
        # a module counts as parsed once its whole file went through (checked against attempts_of below)
    # a module counts as parsed when the whole file it came in went through; the copy taken first is the one that counts
    for a_ in cs.attempts_of(t):
        if a_['ok'] and a_['info'] is not None:
            for (m, _x, _y) in a_['mods']:
                if m not in parsed:
                    parsed[m] = (a_['info'], a_['name'])
    true_mtime = {}
    if not scn.get('realfs') and not scn.get('callback_sources'):
        for a_ in cs.attempts_of(t):
            if a_['ok'] and isinstance(a_['src'], int) and a_['src'] < len(scn.get('sources', ())):
                for (m_, _x, _y) in a_['mods']:
                    true_mtime.setdefault(m_, scn['sources'][a_['src']].get('mtime', core.EPOCH0))
    requested_mods = set(m for a_ in cs.attempts_of(t) if a_['ok'] and a_['name'] in scn['requested'] for (m, _x, _y) in a_['mods'])
    gen_calls = {}
    for c in t.by('codegen.genCode'):
        gen_calls.setdefault(c.mib, []).append(c)
    puts = {}
    for c in t.by('writer.putData'):
        puts.setdefault(c.mib, []).append(c)
    borrowed = set(c.mib for c in t.by('borrower.getData') if c.ok)
    # searcher calls happen in two stages (parsed modules, then borrowed ones); split by position of the first borrower call
    first_b = min([c.seq for c in t.by('borrower.getData')] or [1 << 30])
    per = {}
    for c in t.by('searcher.fileExists'):
        stage = 0 if c.seq < first_b else 1
        per.setdefault((c.mib, stage), []).append(c)
    for (m, stage), cl in sorted(per.items()):
        comps = [c.comp for c in cl]
        if comps != list(range(len(comps))):
            V('C10.1-searcher-order', 'searchers for %s consulted in order %s' % (m, comps), what='order')
        for i, c in enumerate(cl):
            fresh = c.exc is not None and type(c.exc).__name__ == 'PySmiFileNotModifiedError'
            if fresh and i != len(cl) - 1:
                V('C10.1-searcher-order', 'searcher %d reported %s up to date, yet searcher %d was asked too' % (c.comp, m, cl[i + 1].comp), what='not-first')
            if bool(c.kw.get('rebuild')) != rebuild:
                V('C10.3-rebuild', 'searcher received rebuild=%r for a call with rebuild=%r' % (c.kw.get('rebuild'), rebuild), what='rebuild-arg')
            if stage == 0 and m in parsed and c.kw.get('mtime') != parsed[m][0].mtime:
                V('C10.1-searcher-order', 'searcher asked about %s with mtime %r, the source has %r' % (m, c.kw.get('mtime'), parsed[m][0].mtime), what='mtime-arg')
            if stage == 0 and m in parsed and m in true_mtime and c.kw.get('mtime') != true_mtime[m]:
                # ground truth: the modification time the scenario gave the source that supplied the module
                V('C10.1-searcher-order', 'searcher asked about %s with mtime %r, the source that supplied it is stamped %r' % (m, c.kw.get('mtime'), true_mtime[m]), what='mtime-truth')
        lastfresh = cl[-1].exc is not None and type(cl[-1].exc).__name__ == 'PySmiFileNotModifiedError'
        if not lastfresh and len(cl) < nse:
            V('C10.1-searcher-order', 'search for %s stopped after searcher %d without a fresh answer (%d searchers)' % (m, cl[-1].comp, nse), what='gave-up-early')
        if lastfresh:
            if str(R.get(m)) != 'untouched':
                V('C10.2-untouched', '%s has an up-to-date copy but is reported %s' % (m, R.get(m)), what='fresh-status', status=str(R.get(m)))
            if stage == 0 and m in gen_calls:
                V('C10.2-untouched', '%s has an up-to-date copy but was code-generated' % m, what='fresh-generated')
            if m in puts:
                V('C10.2-untouched', '%s has an up-to-date copy but was written' % m, what='fresh-written')
    for m in sorted(parsed):
        if nse and (m, 0) not in per:
            V('C10.1-searcher-order', 'parsed module %s was never checked against the searchers' % m, what='not-searched')
        cl = per.get((m, 0), [])
        fresh = bool(cl) and cl[-1].exc is not None and type(cl[-1].exc).__name__ == 'PySmiFileNotModifiedError'
        eligible = (not noDeps) or (m in requested_mods)
        if not fresh and eligible:
            if len(gen_calls.get(m, [])) != 1:
                V('C10.5-needed', '%s needs generating (no fresh copy) but the generator was called %d times' % (m, len(gen_calls.get(m, []))), what='needed-not-generated')
        if not fresh and not eligible:
            if m in gen_calls:
                V('C10.4-nodeps', 'dependency %s was code-generated although noDeps is set' % m, what='dependency-generated')
            if str(R.get(m)) != 'untouched' and m not in borrowed:
                V('C10.4-nodeps', 'dependency %s is reported %s under noDeps' % (m, R.get(m)), what='dependency-status', status=str(R.get(m)))
            if m in puts and m not in borrowed:
                V('C10.4-nodeps', 'dependency %s was written under noDeps' % m, what='dependency-written')
    # time-comparing searchers: ground truth from the scenario (the stored copy's stamp vs the stamp the scenario gave the source)
    if not rebuild:
        for m in sorted(parsed):
            if m in true_mtime:
                holders = [i for i, se in enumerate(scn.get('searchers', ())) if se.get('flavour') == 'age' and se.get('have', {}).get(m) is not None and se['have'][m] >= true_mtime[m]]
                if holders and not any(c.injected for c in t.by('searcher.fileExists') if c.mib == m):
                    if m in gen_calls or m in puts or str(R.get(m)) != 'untouched':
                        V('C10.2-untouched', 'searcher %d holds a copy of %s stamped %s, the source is stamped %s, yet the module is %s' % (
                            holders[0], m, scn['searchers'][holders[0]]['have'][m], true_mtime[m], 'generated' if m in gen_calls else R.get(m)), what='fresh-by-ground-truth')
    # the real StubSearcher: up to date exactly for the names on its list
    for i, se in enumerate(scn.get('searchers', ())):
        if se.get('flavour') == 'realstub':
            listed = set(n for n, a in se.get('answers', {}).items() if a == 'fresh')
            for c in t.by('searcher.fileExists'):
                if c.comp == i and not c.injected:
                    said = c.exc is not None and type(c.exc).__name__ == 'PySmiFileNotModifiedError'
                    if said != (c.mib in listed):
                        V('C10.3-rebuild', 'stub list %s answered %s for %s' % (sorted(listed), 'up to date' if said else 'not listed', c.mib), what='stub-wrong-answer')
    # a module obtained from a borrower goes through the searchers as well (its copy may already be in place)
    for m in sorted(borrowed):
        if nse and (m, 1) not in per and str(R.get(m)) == 'borrowed':
            V('C10.1-searcher-order', 'borrowed module %s was written without asking the searchers' % m, what='borrowed-not-searched', rebuild=rebuild)
    # rebuild defeats file-like freshness but not stub lists
    if rebuild:
        for i, s in enumerate(scn.get('searchers', ())):
            if s.get('flavour') in ('stub', 'realstub'):
                for m, a in s.get('answers', {}).items():
                    if a == 'fresh' and any(c.comp == i and c.mib == m and not c.injected for c in t.by('searcher.fileExists')):
                        if str(R.get(m)) != 'untouched':
                            V('C10.3-rebuild', 'stub-listed %s is reported %s under rebuild' % (m, R.get(m)), what='stub-defeated')
                        t.world.probe('stub-hit-under-rebuild')
    return viol


# ==========================================================================
# layer (b): real file searchers
# ==========================================================================
MAIN = ['none', 'file-1', 'file0', 'file+1', 'dir']
PYC = ['none', 'pyc-1', 'pyc0', 'pyc+1', 'badmagic', 'short', 'magiconly', 'hashbased']
T0 = core.EPOCH0 + 500


def b_scenarios():
    out = []
    for searcher in ('any', 'py', 'pkg'):
        for main in MAIN:
            for pyc in (PYC if searcher != 'any' else ['none']):
                for distract in (False, True):
                    for rebuild in (False, True):
                        out.append({'layer': 'b', 'searcher': searcher, 'main': main, 'pyc': pyc, 'distract': distract, 'rebuild': rebuild,
                                    'name': 'AAA-MIB', 'skew': 0})
    # a relative directory name and a change of the working directory between construction and use
    for searcher in ('any', 'py'):
        for main in MAIN:
            out.append({'layer': 'b', 'searcher': searcher, 'main': main, 'pyc': 'none', 'distract': False, 'rebuild': False, 'name': 'AAA-MIB', 'skew': 0, 'relative': True})
    # a searcher with two extensions: any combination of absent / older / equal / newer / directory under either of them
    for main in MAIN:
        for alt in ('file-1', 'file0', 'file+1', 'dir'):
            out.append({'layer': 'b', 'searcher': 'any', 'main': main, 'pyc': 'none', 'distract': False, 'rebuild': False, 'name': 'AAA-MIB', 'skew': 0, 'alt': alt})
    # times past 2**31 seconds (19 January 2038): still representable in the 32-bit field of a byte-code header
    for searcher in ('any', 'py', 'pkg'):
        for main in MAIN:
            for pyc in (PYC[:4] if searcher != 'any' else ['none']):
                out.append({'layer': 'b', 'searcher': searcher, 'main': main, 'pyc': pyc, 'distract': False, 'rebuild': False, 'name': 'AAA-MIB', 'skew': 0,
                            't0': 2 ** 31 + 86400 * 400})
    # byte-code left in __pycache__ by an earlier import is not a transformed copy of the module: with the .py gone or
    # stale the answer is "not up to date" whatever that cache entry says
    for searcher in ('py', 'pkg'):
        for main in MAIN:
            for pc in ('fresh', 'stale'):
                out.append({'layer': 'b', 'searcher': searcher, 'main': main, 'pyc': 'none', 'distract': False, 'rebuild': False, 'name': 'AAA-MIB', 'skew': 0,
                            'pycache': pc})
    # a package laid out as a symlink farm: __init__.py is a link to a file kept elsewhere, the modules are in the package
    for main in MAIN:
        for rebuild in (False, True):
            out.append({'layer': 'b', 'searcher': 'pkg', 'main': main, 'pyc': 'none', 'distract': False, 'rebuild': rebuild, 'name': 'AAA-MIB', 'skew': 0,
                        'init_symlink': True})
    return out


def _pyc_bytes(dt, kind, T0=T0):
    magic = importlib.util.MAGIC_NUMBER
    if kind == 'badmagic':
        magic = b'\x00\x00\r\n'
    if kind == 'short':
        return magic[:3]
    if kind == 'magiconly':
        return magic + b'\x00\x00'
    if kind == 'hashbased':
        return magic + struct.pack('<L', 1) + b'\xff' * 8 + b'\x00' * 8
    return magic + struct.pack('<L', 0) + struct.pack('<L', (T0 + dt) & 0xFFFFFFFF) + struct.pack('<L', 10) + b'\x00' * 8


def _populate_b(scn, d):
    T0 = scn.get('t0', globals()['T0'])        # base time of the scenario (one world in three lives after 2038-01-19)
    name = scn['name']
    ext = '.json' if scn['searcher'] == 'any' else '.py'
    skew = scn.get('skew', 0)
    with core.unhooked():
        os.makedirs(d, exist_ok=True)
        if scn['searcher'] == 'pkg':
            if scn.get('init_symlink'):
                store = os.path.join(os.path.dirname(d), 'store-' + os.path.basename(d))
                os.makedirs(store, exist_ok=True)
                with open(os.path.join(store, '__init__.py'), 'w') as f:
                    f.write('')
                if not os.path.lexists(os.path.join(d, '__init__.py')):
                    os.symlink(os.path.join(store, '__init__.py'), os.path.join(d, '__init__.py'))
            else:
                with open(os.path.join(d, '__init__.py'), 'w') as f:
                    f.write('')
        if scn.get('pycache'):
            import sys as _sys
            os.makedirs(os.path.join(d, '__pycache__'), exist_ok=True)
            p = os.path.join(d, '__pycache__', '%s.%s.pyc' % (name, _sys.implementation.cache_tag))
            with open(p, 'wb') as f:
                f.write(_pyc_bytes(1 if scn['pycache'] == 'fresh' else -1, 'pyc+1', T0))
            os.utime(p, (T0 + 1000, T0 + 1000))
        m = scn['main']
        if m.startswith('file'):
            dt = int(m[4:])
            p = os.path.join(d, name + ext)
            with open(p, 'w') as f:
                f.write('x = 1\n')
            os.utime(p, (T0 + dt + skew, T0 + dt + skew))
        elif m == 'dir':
            os.makedirs(os.path.join(d, name + ext))
        if scn.get('alt'):
            # a searcher configured with two extensions: a copy under the other (first-listed) extension
            p2 = os.path.join(d, name + '.jsn')
            if scn['alt'] == 'dir':
                os.makedirs(p2)
            else:
                with open(p2, 'w') as f:
                    f.write('x = 2\n')
                dt2 = int(scn['alt'][4:])
                os.utime(p2, (T0 + dt2, T0 + dt2))
        k = scn['pyc']
        if k != 'none':
            p = os.path.join(d, name + '.pyc')
            with open(p, 'wb') as f:
                f.write(_pyc_bytes({'pyc-1': -1, 'pyc0': 0, 'pyc+1': 1}.get(k, 0), k, T0))
            os.utime(p, (T0 + 1000, T0 + 1000))   # the file's own mtime must not matter
        if scn['distract']:
            for fn in (name + '.txt', name, 'BBB-MIB' + ext, name.lower() + ext, name + ext + '.bak', 'X' + name + ext, name + '.pyo', name[:-1] + ext):
                p = os.path.join(d, fn)
                if fn in (name + '.json', name + '.py', name + '.pyc'):
                    continue
                if not os.path.exists(p):
                    with open(p, 'w') as f:
                        f.write('distractor\n')
                    os.utime(p, (T0 + 5000, T0 + 5000))


def run_late_pkg(scn):
    """PyPackageSearcher asked while its package does not exist yet, then again after the package has appeared with an
    up-to-date module (one long-lived searcher object)."""
    from pysmi import error
    from pysmi.searcher import PyPackageSearcher
    root = core.new_root('c10p')
    viol = []
    pkgname = 'simpkg_late'
    try:
        sys.path.insert(0, root)
        importlib.invalidate_caches()
        s = PyPackageSearcher(pkgname)
        w = core.World(root=root, clock=T0 + 2000)
        answers = []
        with w:
            for step in (0, 1):
                if step == 1:
                    base = dict(scn, searcher='pkg', main='file+1', pyc='none', distract=scn.get('distract', False), skew=0)
                    _populate_b(base, os.path.join(root, pkgname))
                    importlib.invalidate_caches()
                w.begin_op(step, 'fileExists')
                try:
                    s.fileExists(scn['name'], T0, rebuild=False)
                    ans = 'returned'
                except error.PySmiFileNotModifiedError:
                    ans = 'fresh'
                except error.PySmiFileNotFoundError:
                    ans = 'stale'
                except error.PySmiSearcherError:
                    ans = 'error'
                except BaseException as e:  # noqa
                    ans = 'foreign:%s' % type(e).__name__
                w.end_op(ans)
                answers.append(ans)
        if answers != ['stale', 'fresh']:
            viol.append({'clause': 'C10.6-file-searcher', 'key': 'C10.6-file-searcher|late-package', 'facts': {'what': 'late-package', 'answers': answers, 'searcher': 'pkg'},
                         'message': 'PyPackageSearcher answered %s before/after its package appeared with an up-to-date module; expected stale, fresh' % answers})
        fp, fph = w.fingerprints(extra=answers)
        return {'violations': viol, 'sig': json.dumps(['b-late', answers]), 'nontrivial': True, 'events': len(w.log), 'sim_s': 0, 'fired': {}, 'probes': {'layer-b-late-package': 1},
                'fp': fp, 'fph': fph, 'comps': {'searcher.fileExists(real)': 2}, 'answer': answers}
    finally:
        try:
            sys.path.remove(root)
        except ValueError:
            pass
        for k in [k for k in sys.modules if k == pkgname or k.startswith(pkgname + '.')]:
            del sys.modules[k]
        sys.path_importer_cache.pop(root, None)
        core.drop_root(root)


def _expected_b(scn):
    """Reference predicate: up to date <=> not rebuild and a regular file for exactly N with one of the
    searcher's extensions exists whose time (a .pyc: header time) >= t."""
    if scn['rebuild']:
        return 'rebuild'
    fresh = False
    skew = scn.get('skew', 0)
    if scn['main'].startswith('file') and int(scn['main'][4:]) + skew >= 0:
        fresh = True
    if scn.get('alt', '').startswith('file') and int(scn['alt'][4:]) >= 0:
        fresh = True
    if scn['searcher'] != 'any' and scn['pyc'] in ('pyc0', 'pyc+1'):
        fresh = True
    return 'fresh' if fresh else 'stale'


_pkgn = [0]


def run_b(scn):
    T0 = scn.get('t0', globals()['T0'])
    from pysmi import error
    from pysmi.searcher import AnyFileSearcher, PyFileSearcher, PyPackageSearcher
    root = core.new_root('c10b')
    viol = []
    old_cwd = None

    def V(clause, msg, **facts):
        facts.update(searcher=scn['searcher'], main=scn['main'], pyc=scn['pyc'])
        viol.append({'clause': clause, 'key': '%s|%s|%s' % (clause, facts.get('what', ''), scn['searcher']), 'facts': facts, 'message': msg})
    pkgname = None
    try:
        if scn['searcher'] == 'pkg':
            pkgname = 'simpkg_w'
            d = os.path.join(root, pkgname)
        else:
            d = os.path.join(root, 'dst')
        _populate_b(scn, d)
        darg = d
        if scn.get('relative') and scn['searcher'] != 'pkg':
            # the searcher is given a relative directory and the process changes its working directory between making the
            # searcher and asking it: the directory meant is the one the name denotes when it is used (here `d`); at the
            # place the name denoted earlier sits the opposite population
            d = os.path.join(root, 'later', 'dst')
            with core.unhooked():
                os.makedirs(os.path.join(root, 'earlier'))
                os.makedirs(os.path.join(root, 'later'))
            _populate_b(scn, d)
            opp = dict(scn, main='none' if _expected_b(scn) == 'fresh' else 'file+1', pyc='none', distract=False)
            _populate_b(opp, os.path.join(root, 'earlier', 'dst'))
            old_cwd = os.getcwd()
            os.chdir(os.path.join(root, 'earlier'))
            darg = 'dst'
        d_ = d
        d = darg
        if scn['searcher'] == 'any':
            s = AnyFileSearcher(d).setOptions(exts=['.jsn', '.json'] if scn.get('alt') else ['.json'])
        elif scn['searcher'] == 'py':
            s = PyFileSearcher(d)
        else:
            sys.path.insert(0, root)
            importlib.invalidate_caches()
            s = PyPackageSearcher(pkgname)
        d = d_
        if old_cwd is not None:
            os.chdir(os.path.join(root, 'later'))
        w = core.World(root=root, faults=scn.get('faults', ()), clock=T0 + 2000)
        with w:
            w.begin_op(0, 'fileExists')
            try:
                r = s.fileExists(scn['name'], T0, rebuild=scn['rebuild'])
                ans = 'returned'
            except error.PySmiFileNotModifiedError:
                ans = 'fresh'
            except error.PySmiFileNotFoundError:
                ans = 'stale'
            except error.PySmiSearcherError:
                ans = 'error'
            except BaseException as e:  # noqa
                ans = 'foreign:%s' % type(e).__name__
            w.end_op(ans)
        exp = _expected_b(scn)
        faulted = bool(w.fired)
        legacy = scn['pyc'] in ('pyc-1', 'pyc0', 'pyc+1')
        facts = {'expected': exp, 'answer': ans, 'rebuild': scn['rebuild'], 'legacy_pyc_present': legacy, 'faulted': faulted}
        if ans.startswith('foreign'):
            V('C10.6-file-searcher', 'searcher raised %s (population %s/%s)' % (ans, scn['main'], scn['pyc']), what='foreign-exception', exception=ans[8:], **facts)
        elif exp == 'rebuild':
            if ans not in ('returned',) and not faulted:
                V('C10.3-rebuild', 'file searcher answered %s under rebuild' % ans, what='rebuild-ignored', **facts)
        elif not faulted:
            if ans != exp:
                V('C10.6-file-searcher', 'searcher answered %s, the reference predicate says %s (main=%s pyc=%s distract=%s)' % (ans, exp, scn['main'], scn['pyc'], scn['distract']),
                  what='wrong-answer:%s-for-%s' % (ans, exp), **facts)
        else:
            if ans == 'fresh' and exp != 'fresh':
                V('C10.6-file-searcher', 'searcher answered up-to-date for a stale/absent file under fault %s' % sorted(w.fired), what='fresh-under-fault', **facts)
            if ans == 'returned':
                V('C10.6-file-searcher', 'searcher returned normally without rebuild under fault %s' % sorted(w.fired), what='returned-under-fault', **facts)
        fp, fph = w.fingerprints(extra=[ans])
        return {'violations': viol, 'sig': json.dumps(['b', scn['searcher'], scn['main'], scn['pyc'], scn['distract'], scn['rebuild'], scn.get('skew', 0), sorted(w.fired), ans]),
                'nontrivial': True, 'events': len(w.log), 'sim_s': 2000, 'fired': dict(w.fired), 'probes': {'layer-b': 1, 'b-answer:' + ans.split(':')[0]: 1},
                'fp': fp, 'fph': fph, 'comps': {'searcher.fileExists(real)': 1}, 'points': [list(p) for p in w.points], 'answer': ans}
    finally:
        if old_cwd is not None:
            os.chdir(old_cwd)
        if pkgname:
            try:
                sys.path.remove(root)
            except ValueError:
                pass
            for k in [k for k in sys.modules if k == pkgname or k.startswith(pkgname + '.')]:
                del sys.modules[k]
            sys.path_importer_cache.pop(root, None)
        core.drop_root(root)


# ==========================================================================
# layer (c): end-to-end history on one tree
# ==========================================================================
def gen_c(rng, tier):
    specs = mibgen.gen_modules(rng, rng.choice([1, 2, 3]), cycles=False, defects=0.0, smiv1=0.0, compliance=0.2)
    names = sorted(specs)
    ops = []
    for _ in range(rng.choice([2, 3, 4, 5, 6])):
        r = rng.random()
        if r < 0.5:
            opts = {}
            if rng.random() < 0.2:
                opts['rebuild'] = True
            if rng.random() < 0.2:
                opts['noDeps'] = True
            ops.append({'op': 'compile', 'names': [rng.choice(names)], 'options': opts})
            first = not any(o_['op'] == 'compile' for o_ in ops[:-1])
            if rng.random() < (0.3 if first else 0.1):
                # the process is killed inside this call (no clean-up runs); whatever runs afterwards is a new process
                ops[-1]['kill'] = {'site': rng.choice(['mkstemp', 'os.write', 'os.close', 'os.rename', 'os.stat']), 'nth': rng.choice([0, 0, 1, 2, 3, 5, 8])}
                if first:
                    ops[-1]['options'].pop('noDeps', None)
        elif r < 0.75:
            ops.append({'op': 'touch', 'name': rng.choice(names + list(basemibs.BASE_NAMES))})
        else:
            ops.append({'op': 'advance', 'dt': rng.choice([0, 1, 1, 2, 100, -1, -50, 0.25, 0.5, 0.75, 1.5])})
    if not any(o['op'] == 'compile' for o in ops):
        ops.append({'op': 'compile', 'names': [names[-1]], 'options': {}})
    return {'layer': 'c', 'modules': specs, 'ops': ops, 'src_skew': rng.choice([0, 0, 0, 1, -1, 300, -300, 0.5, -0.5]), 'listing_seed': rng.randrange(1 << 30),
            'persistent': rng.random() < 0.5}


def _c_zip(scn, rng):
    if rng.random() < 0.25:
        scn['zip_tz'] = rng.choice(['CET-1CEST,M3.5.0,M10.5.0/3', 'EST5EDT,M3.2.0,M11.1.0', 'IST-5:30', 'UTC'])
        scn['persistent'] = False        # a ZipReader reads the archive directory once, at construction
        scn['src_skew'] = int(scn['src_skew'])
        for o in scn['ops']:
            if o['op'] == 'advance':
                o['dt'] = int(o['dt']) * 2     # whole, even seconds: ZIP time resolution
    return scn


def _c_http(scn, rng):
    """the sources come from a web server: the reader takes the source's age from the Last-Modified header (GMT)"""
    scn['http_tz'] = rng.choice(['CET-1CEST,M3.5.0,M10.5.0/3', 'EST5EDT,M3.2.0,M11.1.0', 'IST-5:30', 'UTC', 'UTC'])
    scn['persistent'] = rng.random() < 0.5
    scn['src_skew'] = int(scn['src_skew'])
    scn['no_last_modified'] = rng.random() < 0.2
    for o in scn['ops']:
        if o['op'] == 'advance':
            o['dt'] = int(o['dt'])
    return scn


class _HttpResp(object):
    code = 200

    def __init__(self, body, lastmod):
        self._b = body
        self._lm = lastmod

    def getheader(self, name, default=None):
        return self._lm if name == 'Last-Modified' and self._lm else default

    def read(self, n=-1):
        return self._b if n is None or n < 0 else self._b[:n]


def run_c(scn):
    from pysmi.compiler import MibCompiler
    from pysmi.reader.localfile import FileReader
    from pysmi.searcher import AnyFileSearcher
    from pysmi.writer.localfile import FileWriter
    root = core.new_root('c10c')
    viol = []
    saved_urlopen = None

    def V(clause, msg, **facts):
        viol.append({'clause': clause, 'key': '%s|%s' % (clause, facts.get('what', '')), 'facts': facts, 'message': msg})
    try:
        src = os.path.join(root, 'src')
        dst = os.path.join(root, 'dst')
        specs = scn['modules']
        texts = dict(basemibs.BASE)
        for n, sp in specs.items():
            texts[n] = mibgen.render(sp, specs)
        src_m = {}
        t_src0 = core.EPOCH0 + scn.get('src_skew', 0)
        with core.unhooked():
            os.makedirs(src)
            os.makedirs(dst)
            for n, txt in sorted(texts.items()):
                with open(os.path.join(src, n), 'w') as f:
                    f.write(txt)
                os.utime(os.path.join(src, n), (t_src0, t_src0))
                src_m[n] = t_src0
        dst_m = {}
        persistent = None
        ztz = scn.get('zip_tz')
        zp = os.path.join(root, 'sources.zip')

        def rebuild_zip():
            # the sources live in a ZIP archive whose member times are local wall-clock fields (2 s resolution)
            import zipfile
            with core.unhooked():
                with zipfile.ZipFile(zp, 'w', zipfile.ZIP_DEFLATED) as z:
                    for n_ in sorted(texts):
                        zi = zipfile.ZipInfo(n_, core.R.localtime(int(src_m[n_]))[:6])
                        z.writestr(zi, texts[n_])
        if ztz:
            os.environ['TZ'] = ztz
            time.tzset()
            for n_ in src_m:
                src_m[n_] = float(int(src_m[n_]) // 2 * 2)
            rebuild_zip()
        htz = scn.get('http_tz')
        if htz:
            import pysmi.reader.httpclient as hc
            os.environ['TZ'] = htz
            time.tzset()
            for n_ in src_m:
                src_m[n_] = float(int(src_m[n_]))

            def fake_urlopen(reqobj):
                name = reqobj.full_url.rsplit('/', 1)[-1]
                if name in texts:
                    lm = None if scn.get('no_last_modified') else core.R.strftime('%a, %d %b %Y %H:%M:%S GMT', core.R.gmtime(int(src_m[name])))
                    return _HttpResp(texts[name].encode(), lm)
                raise IOError('HTTP Error 404: Not Found')
            saved_urlopen = hc.urlopen
            hc.urlopen = fake_urlopen
        w = core.World(root=root, clock=core.EPOCH0, listing_seed=scn.get('listing_seed'))
        core.patch_pysmi()
        sig = []
        with w:
            for i, op in enumerate(scn['ops']):
                w.begin_op(i, op['op'])
                if op['op'] == 'advance':
                    w.now += op['dt']
                elif op['op'] == 'touch':
                    with core.unhooked():
                        os.utime(os.path.join(src, op['name']), (w.now, w.now))
                    src_m[op['name']] = w.now
                    if ztz:
                        src_m[op['name']] = float(int(w.now) // 2 * 2)
                        rebuild_zip()
                    if htz:
                        src_m[op['name']] = float(int(w.now))
                else:
                    if persistent is None or not scn.get('persistent'):
                        # a long-lived compiler (one searcher/reader/writer object for the whole history) in
                        # 'persistent' worlds, a fresh set of objects per call otherwise
                        comp = MibCompiler(cs.get_parser(), cs.new_codegen('json'), FileWriter(dst).setOptions(suffix='.json'))
                        if ztz:
                            from pysmi.reader.zipreader import ZipReader
                            comp.addSources(ZipReader(zp))
                        elif htz:
                            from pysmi.reader.httpclient import HttpReader
                            comp.addSources(HttpReader('mibs.example.com', 80, '/asn1/@mib@'))
                        else:
                            comp.addSources(FileReader(src))
                        comp.addSearchers(AnyFileSearcher(dst).setOptions(exts=['.json']))
                        persistent = comp
                    comp = persistent
                    before = core.snapshot(dst)
                    if op.get('kill'):
                        w.faults = [{'op': i, 'site': op['kill']['site'], 'nth': op['kill']['nth'], 'action': 'kill', 'arg': None}]
                    if htz and scn.get('no_last_modified'):
                        for n_ in src_m:
                            src_m[n_] = float(int(w.now)) if w.now == int(w.now) else w.now    # no header: the reader takes the time of the fetch
                    try:
                        with core.partitioned_network():
                            R = comp.compile(*op['names'], **op['options'])
                    except core.SimKill:
                        # crash: only what had been renamed into place survives as a module file; every such file must be
                        # complete, and the next process must reach the right decisions from that durable state alone
                        persistent = None
                        w.faults = []
                        w.probe('c-process-killed-inside-compile')
                        after = core.snapshot(dst)
                        for fn_, rec_ in sorted(after.items()):
                            if fn_.endswith('.json') and before.get(fn_) != rec_:
                                body = core.read_bytes(os.path.join(dst, fn_)) or b''
                                try:
                                    json.loads(body.decode())
                                except ValueError:
                                    V('C10.7-history', 'operation %d: after a kill inside compile() the destination holds an incomplete %s (%d bytes)' % (i, fn_, len(body)),
                                      what='partial-after-kill')
                                dst_m[fn_[:-5]] = w.now
                        w.end_op('killed')
                        continue
                    except BaseException as e:  # noqa
                        if isinstance(e, (core.StepBudget, core.WorldTimeout)):
                            raise
                        V('C10.7-history', 'compile() raised %s in a healthy world' % type(e).__name__, what='raised')
                        w.end_op('raise')
                        break
                    w.faults = []
                    after = core.snapshot(dst)
                    rebuild = bool(op['options'].get('rebuild'))
                    noDeps = bool(op['options'].get('noDeps'))
                    # closure of the requested names
                    todo = list(op['names'])
                    clo = []
                    while todo:
                        n = todo.pop(0)
                        if n in clo:
                            continue
                        clo.append(n)
                        if n in specs:
                            todo.extend(specs[n]['imports'])
                        todo.extend(basemibs.BASE_NAMES)
                    for n in clo:
                        if n in dst_m and (dst_m[n] >= src_m[n]) != (int(dst_m[n] // 1) >= int(src_m[n] // 1)):
                            # sub-second order and whole-second order disagree: either answer is defensible
                            w.probe('c-subsecond-ambiguous-not-judged')
                            if str(R.get(n)) == 'compiled':
                                dst_m[n] = w.now
                            continue
                        uptodate = (not rebuild) and n in dst_m and dst_m[n] >= src_m[n]
                        eligible = (not noDeps) or n in op['names']
                        expect = 'untouched' if (uptodate or not eligible) else 'compiled'
                        got = str(R.get(n))
                        changed = before.get(n + '.json') != after.get(n + '.json')
                        if got != expect:
                            V('C10.7-history', 'operation %d: %s is reported %s, the model (source mtime %s, destination mtime %s, rebuild=%s, noDeps=%s) says %s' % (
                                i, n, got, round(src_m[n] - core.EPOCH0, 2), round(dst_m[n] - core.EPOCH0, 2) if n in dst_m else None, rebuild, noDeps, expect),
                              what='status:%s-not-%s' % (got, expect), relation=('absent' if n not in dst_m else 'eq' if dst_m[n] == src_m[n] else 'newer' if dst_m[n] > src_m[n] else 'older'))
                        if expect == 'untouched' and changed:
                            V('C10.7-history', 'operation %d: %s is up to date but its file was rewritten' % (i, n), what='rewritten')
                        if expect == 'compiled' and got == 'compiled':
                            if (n + '.json') not in after:
                                V('C10.7-history', 'operation %d: %s reported compiled but no file exists' % (i, n), what='no-file')
                            dst_m[n] = w.now
                        sig.append((expect, 'eq' if n in dst_m and dst_m[n] == src_m[n] else ''))
                w.end_op()
        fp, fph = w.fingerprints(extra=sorted(core.snapshot(dst, with_mtime=True, scrub=root).items()))
        return {'violations': viol, 'sig': json.dumps(['c', [o['op'] for o in scn['ops']], sorted(set(sig)), scn.get('src_skew'), bool(scn.get('persistent'))]),
                'nontrivial': True, 'events': len(w.log), 'sim_s': abs(w.simulated_seconds()) + sum(abs(o.get('dt', 0)) for o in scn['ops']), 'fired': dict(w.fired),
                'probes': dict(w.probes, **{'layer-c': 1, 'c-equal-mtime-case': 1 if any(s[1] == 'eq' for s in sig) else 0}),
                'fp': fp, 'fph': fph, 'comps': {'compile(real reader/writer/searcher)': sum(1 for o in scn['ops'] if o['op'] == 'compile')}}
    finally:
        if scn.get('zip_tz') or scn.get('http_tz'):
            os.environ['TZ'] = 'UTC'
            time.tzset()
        if scn.get('http_tz') and saved_urlopen is not None:
            import pysmi.reader.httpclient as hc
            hc.urlopen = saved_urlopen
        cs.get_parser()
        core.drop_root(root)


# ==========================================================================
def run(scn):
    layer = scn.get('layer', 'a')
    if layer == 'b' and scn.get('late_pkg'):
        return run_late_pkg(scn)
    if layer == 'b':
        return run_b(scn)
    if layer == 'c':
        return run_c(scn)
    t = cs.run_world(scn)
    viol = judge_a(t)
    if t.second is not None:
        for v in judge_a(t.second):
            v['key'] += '|second-call'
            v['facts']['call'] = 2
            v['message'] = 'second compile() on the same compiler: ' + v['message']
            viol.append(v)
    return cs.outcome(t, viol, nontrivial=bool(scn.get('searchers')) and (len(scn.get('modules', {})) >= 1), extra_sig=['a', [s.get('flavour') for s in scn.get('searchers', ())]])


def sweep(tier):
    out = []
    for base in b_scenarios():
        out.append(base)
        pts = run_b(base)['points']
        for (op, site, nth, subject) in pts:
            for a, arg in core.SITE_ACTIONS.get(site, []):
                s = copy.deepcopy(base)
                s['faults'] = [{'op': op, 'site': site, 'nth': nth, 'action': a, 'arg': arg}]
                out.append(s)
    return out


def generate(rng, tier):
    r = rng.random()
    if r < 0.55:
        scn = cs.gen_world(rng, tier, focus='C10')
        if rng.random() < 0.35:
            scn['options']['rebuild'] = True
        if rng.random() < 0.3:
            scn['options']['noDeps'] = True
        return scn
    if r < 0.75:
        base = rng.choice(b_scenarios())
        base = dict(base)
        base['skew'] = rng.choice([0, 0, 1, -1, 2, -2, 3600, -3600])
        base['name'] = rng.choice(['AAA-MIB', 'Foo-Mib', 'Xy'])
        if rng.random() < 0.15:
            base['late_pkg'] = True
        return base
    scn = _c_zip(gen_c(rng, tier), rng)
    if not scn.get('zip_tz') and rng.random() < 0.25:
        scn = _c_http(scn, rng)
    return scn


def shrink(scn):
    layer = scn.get('layer', 'a')
    if layer == 'a':
        for s in cs.shrink_world(scn):
            yield s
    elif layer == 'b':
        for f in range(len(scn.get('faults', []))):
            s = copy.deepcopy(scn)
            del s['faults'][f]
            yield s
        if scn.get('distract'):
            s = copy.deepcopy(scn)
            s['distract'] = False
            yield s
        if scn.get('skew'):
            s = copy.deepcopy(scn)
            s['skew'] = 0
            yield s
    else:
        for i in range(len(scn['ops'])):
            if len(scn['ops']) > 1:
                s = copy.deepcopy(scn)
                del s['ops'][i]
                yield s
        for m in sorted(scn['modules']):
            if len(scn['modules']) > 1:
                s = copy.deepcopy(scn)
                del s['modules'][m]
                for sp in s['modules'].values():
                    sp['imports'] = [x for x in sp['imports'] if x != m]
                    if sp.get('oidparent') == m:
                        sp['oidparent'] = None
                ok = True
                for o in s['ops']:
                    if o['op'] == 'compile':
                        o['names'] = [x for x in o['names'] if x != m] or [sorted(s['modules'])[0]]
                    if o['op'] == 'touch' and o['name'] == m:
                        o['name'] = sorted(s['modules'])[0]
                yield s
        if scn.get('src_skew'):
            s = copy.deepcopy(scn)
            s['src_skew'] = 0
            yield s
        if scn.get('persistent'):
            s = copy.deepcopy(scn)
            s['persistent'] = False
            yield s


def size(scn):
    layer = scn.get('layer', 'a')
    if layer == 'a':
        return cs.size(scn)
    if layer == 'b':
        return {'faults': len(scn.get('faults', []))}
    return {'operations': len(scn['ops']), 'modules': len(scn['modules'])}


def describe(scn, out):
    if scn.get('layer', 'a') == 'a':
        return cs.describe(scn, out)
    d = {k: v for k, v in scn.items() if k not in ('_world', 'modules')}
    return {'scenario': d, 'answer': out.get('answer'), 'faults_fired': out.get('fired')}
