"""C14 - readers return the right file for a module name, including
sub-directories and nested ZIP archives; URL -> reader kind.

fs-sim: the real FileReader / ZipReader (built through getReadersFromUrls)
over directory trees and ZIP archives nested to depth <= 3, seeded listing
order, stat/open/read/listdir faults, vanishing files, corrupt members, a
randomised size cap.  Oracle = reference lookup model written from the
documentation sentence (not from getMibVariants)."""
import binascii
import copy
import io
import json
import os
import time
import zipfile

from verif.sim import core

PROPERTY = 'C14'
ENGINE = 'fs-sim'
ENV_VARIANTS = ['locale-C-ascii']
ENV_N = 1500
LEVEL = 'exploration'
QUICK_S = 40
THOROUGH_S = 420
CHUNK = 60
REAL_COMPONENTS = ['pysmi.reader.localfile.FileReader', 'pysmi.reader.zipreader.ZipReader', 'pysmi.reader.url.getReadersFromUrls',
                   'pysmi.reader.httpclient.HttpReader / ftpclient.FtpReader (construction only; no socket is ever opened)', 'zipfile (stdlib)']
STUB_COMPONENTS = ['filesystem faults (errno on listdir/stat/open/read, vanishing files)', 'directory listing order (seeded permutation)', 'file mtimes (stamped)']
RULE = ('seeded worlds: directory trees (depth<=3) or ZIP archives nested to depth<=3 populated with variants and non-variants of the requested name, duplicate basenames with '
        'distinct content/mtime, arbitrary bytes incl. invalid UTF-8, optional .index, matching-option subsets, small size caps, URL styles; a share with fs faults. '
        'distinct = distinct (kind, depth, options, result class, fault kinds, which variant class matched); non-trivial = tree has >= 2 entries or a fault fired')
ASSUMPTIONS = ['.index files are generated well-formed', 'ZIP member times have 2 s resolution (even seconds are used)', 'contradictory URLs (file://x.zip, zip:// without .zip) are not judged',
               'under injected faults only "never wrong data" is judged (the statement does not promise typed errors from readers)']

EXTS = ['', '.txt', '.mib', '.my', '.TXT', '.MIB', '.MY']
OPTS = ['fuzzyMatching', 'originalMatching', 'uppercaseMatching', 'lowcaseMatching']
# mid-January and mid-July of several years (UTC), well away from any daylight-saving transition
SEASONS = [1484480000, 1500000000, 1516000000, 1531600000, 1547500000, 1563100000]
ZONES = [None, None, 'CET-1CEST,M3.5.0,M10.5.0/3', 'EST5EDT,M3.2.0,M11.1.0', 'AEST-10AEDT,M10.1.0,M4.1.0/3', 'IST-5:30']
T0 = 1500000000   # even
CWD0 = os.getcwd()


def core_names(name, o):
    s = set()
    if o.get('originalMatching', True):
        s.add(name)
    if o.get('uppercaseMatching', True):
        s.add(name.upper())
    if o.get('lowcaseMatching', True):
        s.add(name.lower())
    return s


def wide_names(name, o):
    s = set(core_names(name, o))
    if o.get('fuzzyMatching', True):
        for b in (name, name.upper(), name.lower()):
            s.add(b + '-mib')
            s.add(b + '-MIB')
            i = b.lower().find('-mib')
            if i >= 0:
                s.add(b[:i])
    return s


def fuzzy_must(name, o):
    """Fuzzy variants the documentation promises unambiguously: with all case forms enabled, the name with its
    '-mib' suffix removed, or (if it has none) with '-mib'/'-MIB' appended."""
    if not o.get('fuzzyMatching', True) or not all(o.get(k, True) for k in OPTS[1:]):
        return set()
    s = set()
    i = name.lower().find('-mib')
    if i >= 0:
        for b in (name, name.upper(), name.lower()):
            if b[:i]:
                s.add(b[:i])
    else:
        s.add((name + '-mib').upper())
        s.add((name + '-mib').lower())
    return s


def with_exts(names):
    return set(n + e for n in names for e in EXTS)


def decode(b):
    return b.decode('utf-8', 'ignore')


# --------------------------------------------------------------------------
def build_zip(entries):
    """entries: list of (path-with-!/ , bytes, mtime, flags) relative to this archive -> bytes"""
    buf = io.BytesIO()
    with zipfile.ZipFile(buf, 'w', zipfile.ZIP_DEFLATED) as z:
        inner = {}
        order = []
        for path, data, mtime, fl in entries:
            if '!/' in path:
                head, rest = path.split('!/', 1)
                if head not in inner:
                    inner[head] = []
                    order.append(('zip', head))
                inner[head].append((rest, data, mtime, fl))
            else:
                order.append(('file', (path, data, mtime, fl)))
        for kind, x in order:
            if kind == 'file':
                path, data, mtime, fl = x
                zi = zipfile.ZipInfo(path, core.R.localtime(mtime)[:6])
                zi.compress_type = zipfile.ZIP_STORED if fl.get('corrupt') else zipfile.ZIP_DEFLATED
                z.writestr(zi, data)
            else:
                zi = zipfile.ZipInfo(x, core.R.localtime(T0)[:6])
                z.writestr(zi, build_zip(inner[x]))
    out = buf.getvalue()
    for path, data, mtime, fl in entries:
        if fl.get('corrupt') and '!/' not in path and len(data) >= 4:
            # flip one payload byte of the stored member: CRC check must reject it
            i = out.find(data)
            if i >= 0:
                out = out[:i] + bytes([out[i] ^ 0xFF]) + out[i + 1:]
    return out


def materialise(scn, root):
    entries = [(e['path'], _data(e), e['mtime'], e) for e in scn['tree']]
    with core.unhooked():
        if scn['kind'] == 'dir':
            top = os.path.join(root, 'mibs+vendor 1.0' if scn.get('plus_name') else 'mibs')     # '+' and a blank are ordinary characters in a path
            os.makedirs(top)
            for path, data, mtime, fl in entries:
                p = os.path.join(top, path)
                os.makedirs(os.path.dirname(p), exist_ok=True)
                with open(p, 'wb') as f:
                    f.write(data)
                os.utime(p, (mtime, mtime))
            for d in scn.get('empty_dirs', []):
                if not os.path.lexists(os.path.join(top, d)):
                    os.makedirs(os.path.join(top, d))
            if scn.get('index') is not None:
                with open(os.path.join(top, '.index'), 'w') as f:
                    for k, v in scn['index']:
                        f.write('%s %s\n' % (k, v))
            if scn.get('linkdir'):
                # one first-level sub-directory is kept elsewhere and reached through a symbolic link (same paths as seen
                # from the searched directory)
                subs = sorted(x for x in os.listdir(top) if os.path.isdir(os.path.join(top, x)) and not os.path.islink(os.path.join(top, x)))
                if subs:
                    pick = subs[scn['linkdir'] % len(subs)]
                    os.makedirs(os.path.join(root, 'kept-elsewhere'))
                    os.rename(os.path.join(top, pick), os.path.join(root, 'kept-elsewhere', pick))
                    os.symlink(os.path.join(root, 'kept-elsewhere', pick), os.path.join(top, pick))
            return top
        top = os.path.join(root, ('arch+git 2020' if scn.get('plus_name') else 'arch') + scn.get('zipext', '.zip'))
        with open(top, 'wb') as f:
            if scn.get('notazip'):
                f.write(b'this is not a zip archive at all')
            else:
                f.write(build_zip(entries))
        return top


def materialise_late(scn, top):
    """files that appear in (or vanish from) the searched directory while the reader object is alive"""
    with core.unhooked():
        for path in scn.get('late_remove', []):
            try:
                os.unlink(os.path.join(top, path))
            except OSError:
                pass
        for e in scn.get('late', []):        # (after the removals: a path in both lists is a file that was replaced)
            p = os.path.join(top, e['path'])
            os.makedirs(os.path.dirname(p), exist_ok=True)
            with open(p, 'wb') as f:
                f.write(_data(e))
            os.utime(p, (e['mtime'], e['mtime']))


def make_url(scn, top):
    st = scn.get('url_style', 'bare')
    if st == 'bare':
        return top
    q = top.replace('%', '%25').replace(' ', '%20')        # in a URL the blank is written %20; '+' stands for itself
    if st == 'file':
        return 'file://' + q
    if st == 'zip':
        return 'zip://' + q
    if st == 'file-host':
        return 'file://localhost' + q       # RFC 8089: an explicit local authority names the same file
    if st == 'zip-host':
        return 'zip://localhost' + q
    return top


# --------------------------------------------------------------------------
def run(scn):
    if scn.get('mode') == 'url':
        return run_url(scn)
    from pysmi import error
    from pysmi.reader.localfile import FileReader
    from pysmi.reader.url import getReadersFromUrls
    from pysmi.reader.zipreader import ZipReader
    if scn.get('late'):
        # a file cannot appear where a directory is (kept out by the generator; a hand-edited or minimised scenario may differ)
        dirs_ = set(scn.get('empty_dirs', []))
        for e_ in scn['tree']:
            p_ = os.path.dirname(e_['path'])
            while p_:
                dirs_.add(p_)
                p_ = os.path.dirname(p_)
        scn = dict(scn, late=[e_ for e_ in scn['late'] if e_['path'] not in dirs_ and not any(e_['path'].startswith(d_ + '/') and d_ in [x['path'] for x in scn['tree']] for d_ in [os.path.dirname(e_['path'])])])
    root = core.new_root('c14')
    viol = []

    def V(clause, msg, **facts):
        facts.setdefault('kind', scn['kind'])
        viol.append({'clause': clause, 'key': '%s|%s|%s' % (clause, facts.get('what', ''), scn['kind']), 'facts': facts, 'message': msg})
    tz = scn.get('tz')
    try:
        if tz:
            os.environ['TZ'] = tz
            time.tzset()
        top = materialise(scn, root)
        o = dict(scn.get('options', {}))
        name = scn['request']
        w = core.World(root=root, faults=scn.get('faults', ()), rate=scn.get('rate'), listing_seed=scn.get('listing_seed'), clock=T0 + 10 ** 6)
        res = None
        results = []
        with w:
            w.begin_op(0, 'construct')
            try:
                ropts = dict(o)
                if scn.get('maxMibSize'):
                    ropts['maxMibSize'] = scn['maxMibSize']
                if scn.get('useIndexFile') is False:
                    ropts['useIndexFile'] = False
                urls = [make_url(scn, top)]
                if scn.get('chdir') and scn['kind'] == 'zip':
                    # the archive is named relative to the working directory, which changes once the reader exists
                    os.chdir(os.path.dirname(top))
                    urls = [os.path.basename(top)]
                pos = 0
                dec = scn.get('decoy')
                if dec:
                    # several sources in one call (as the scripts do with repeated --mib-source): another URL before or after
                    durl = os.path.join(root, 'elsewhere', 'other.zip' if 'zip' in dec else 'otherdir')
                    if dec.endswith('before'):
                        urls.insert(0, durl)
                        pos = 1
                    else:
                        urls.append(durl)
                readers = getReadersFromUrls(*urls, **ropts)
                rd = readers[pos]
                if scn['kind'] == 'dir':
                    if scn.get('recursive') is False or scn.get('ignoreErrors') is False:
                        rd = FileReader(top, recursive=scn.get('recursive', True), ignoreErrors=scn.get('ignoreErrors', True)).setOptions(**ropts)
                elif scn.get('ignoreErrors') is False:
                    rd = ZipReader(urls[pos] if scn.get('chdir') else top, ignoreErrors=False).setOptions(**ropts)
                if scn.get('second_opts') is not None:
                    # the same URL handed to getReadersFromUrls once more with other options (as mibdump does for
                    # sources vs borrowers): must not affect the reader obtained first
                    getReadersFromUrls(make_url(scn, top), **scn['second_opts'])
                w.end_op('ok')
            except BaseException as e:  # noqa
                if isinstance(e, (core.StepBudget, core.WorldTimeout)):
                    raise
                rd = None
                res = ('construct-raised', type(e).__name__, e)
                w.end_op('raise')
            if rd is not None:
                want_cls = FileReader if scn['kind'] == 'dir' else ZipReader
                if scn.get('url_judged', True) and not isinstance(rd, want_cls):
                    V('C14.5-url', 'URL %s mapped to %s, expected %s' % (scn.get('url_style'), type(rd).__name__, want_cls.__name__), what='url-kind')
                opn = 0
                if scn.get('chdir') and scn['kind'] == 'zip':
                    with core.unhooked():
                        os.makedirs(os.path.join(root, 'workdir'), exist_ok=True)
                    os.chdir(os.path.join(root, 'workdir'))
                for name in [scn['request']] + list(scn.get('more_requests', [])) * 1 + ([scn['request']] if scn.get('more_requests') else []):
                  for k in range(scn.get('repeat', 1)):
                    opn += 1
                    w.begin_op(opn, 'getData')
                    try:
                        info, text = rd.getData(name)
                        res = ('ok', info, text)
                    except error.PySmiReaderFileNotFoundError as e:
                        res = ('notfound', type(e).__name__, e)
                    except error.PySmiError as e:
                        res = ('pkgerror', type(e).__name__, e)
                    except BaseException as e:  # noqa
                        if isinstance(e, (core.StepBudget, core.WorldTimeout)):
                            raise
                        res = ('foreign', type(e).__name__, e)
                    w.end_op(res[0])
                    results.append((name, res, opn))
                    if opn == 1 and (scn.get('late') or scn.get('late_remove')) and scn['kind'] == 'dir':
                        materialise_late(scn, top)
        faulted = bool(w.fired) or bool(scn.get('notazip'))
        all_res = []
        for name, res, opn_ in (results or [(name, res, 1)]):
            # ---------------- reference model
            cap = scn.get('maxMibSize') or 10000000
            leaves = []
            tree_now = scn['tree']
            if opn_ > 1 and scn['kind'] == 'dir' and (scn.get('late') or scn.get('late_remove')):
                gone = set(scn.get('late_remove', []))
                newp = set(e['path'] for e in scn.get('late', []))
                tree_now = [e for e in scn['tree'] if e['path'] not in gone and e['path'] not in newp] + list(scn.get('late', []))
            for e in tree_now:
                segs = e['path'].split('!/')
                base = os.path.basename(segs[-1])
                data = _data(e)
                depth = len(segs) - 1
                if scn['kind'] == 'dir':
                    sub = os.path.dirname(e['path'])
                    reachable = (sub == '') or scn.get('recursive', True)
                else:
                    reachable = True
                    # an inner archive must be named *.zip / *.ZIP to be entered
                    if any(not (s.endswith('.zip') or s.endswith('.ZIP')) for s in segs[:-1]):
                        reachable = False
                if base.endswith('.zip') or base.endswith('.ZIP'):
                    if scn['kind'] == 'zip':
                        reachable = False   # treated as an archive, not as a MIB file
                leaves.append({'base': base, 'data': data, 'mtime': e['mtime'], 'reachable': reachable, 'depth': depth, 'corrupt': bool(e.get('corrupt')), 'path': e['path']})
            idx = None
            if scn['kind'] == 'dir' and scn.get('index') is not None and scn.get('useIndexFile', True):
                m = dict((k, v) for k, v in scn['index'])
                if name in m:
                    idx = m[name]
            if idx is not None:
                wide = set([idx])
                corev = set([idx])
                if w.fired:
                    # a fault while loading .index legitimately makes the reader fall back to plain name matching
                    wide |= with_exts(wide_names(name, o))
            else:
                wide = with_exts(wide_names(name, o))
                corev = with_exts(core_names(name, o) | fuzzy_must(name, o))
            A_wide = [l for l in leaves if l['base'] in wide and l['reachable']]
            A_core = [l for l in leaves if l['base'] in corev and l['reachable'] and not l['corrupt'] and 0 < len(l['data']) < cap]
            if idx is not None and '/' in idx:
                # an index entry that names its file with a directory part: the file is looked for under that path below
                # every directory that is searched
                dirs_ = set([''])
                if scn.get('recursive', True):
                    for e in tree_now:
                        p_ = os.path.dirname(e['path'])
                        while p_:
                            dirs_.add(p_)
                            p_ = os.path.dirname(p_)
                okp = set(os.path.normpath(os.path.join(D_, idx)) for D_ in dirs_)
                by_path = [l for l in leaves if l['path'] in okp]
                A_wide = by_path + ([l for l in A_wide if l not in by_path] if w.fired else [])
                A_core = [l for l in by_path if not l['corrupt'] and 0 < len(l['data']) < cap]
            # a core candidate that is shadowed by an earlier-tried candidate which is too large / empty / corrupt may legitimately lead to an error
            blockers = [l for l in A_wide if l['corrupt'] or len(l['data']) >= cap or len(l['data']) == 0]
            facts = {'options': sorted(k for k in OPTS if not o.get(k, True)), 'cap': scn.get('maxMibSize'), 'index': idx is not None, 'faulted': faulted,
                     'maxdepth': max([l['depth'] for l in leaves] or [0])}
            if res is None:
                res = ('none', '', None)
            rescls = res[0]
            if rescls == 'construct-raised':
                if not faulted:
                    V('C14.1-right-file', 'constructing the reader raised %s' % res[1], what='construct-raised', exception=res[1], **facts)
            elif rescls == 'ok':
                info, text = res[1], res[2]
                fkey = 'path' if (idx is not None and '/' in idx and info.file == idx) else 'base'     # an index entry with a directory part is reported as given
                match = [l for l in A_wide if decode(l['data']) == text and l['mtime'] == info.mtime and (l['base'] == info.file or (fkey == 'path' and l['path'] in okp)) and not l['corrupt']]
                if not match:
                    byname = [l for l in leaves if l['base'] == info.file or (fkey == 'path' and l['path'] in okp)]
                    if info.file not in wide:
                        V('C14.3-unrelated', 'request %s answered from file %s, which is not a variant of the name' % (name, info.file), what='unrelated-file', file=info.file, **facts)
                    elif not any(decode(l['data']) == text for l in byname):
                        trunc = any(decode(l['data']).startswith(text) and text for l in byname)
                        V('C14.1-right-file', 'content returned for %s (file %s) is not the content of any such file%s' % (name, info.file, ' (truncated)' if trunc else ''),
                          what='wrong-content-truncated' if trunc else 'wrong-content', **facts)
                    elif not any(decode(l['data']) == text and l['mtime'] == info.mtime for l in byname):
                        V('C14.1-right-file', 'modification time %r returned for %s does not belong to the file whose content was returned (%s)' % (
                            info.mtime, info.file, sorted(set(l['mtime'] for l in byname if decode(l['data']) == text))), what='wrong-mtime', **facts)
                    else:
                        V('C14.1-right-file', 'file %s was returned although it is not reachable / acceptable' % info.file, what='unreachable', **facts)
                if info.name not in (name,) and idx is None and info.name not in wide_names(name, o):
                    V('C14.1-right-file', 'alias %r reported for request %r' % (info.name, name), what='alias', **facts)
            elif rescls == 'notfound':
                if A_core and not faulted and not blockers:
                    V('C14.2-not-found', 'not-found reported for %s although %s exists' % (name, sorted(set(l['path'] for l in A_core))[:3]), what='false-not-found',
                      nested=min(l['depth'] for l in A_core), **facts)
            elif rescls == 'pkgerror':
                if not faulted and not blockers and not A_wide:
                    V('C14.2-not-found', 'no variant of %s exists, but %s was raised instead of not-found' % (name, res[1]), what='error-not-notfound', exception=res[1], **facts)
                if not faulted and not blockers and A_core:
                    V('C14.2-not-found', '%s raised for %s although %s exists' % (res[1], name, sorted(set(l['path'] for l in A_core))[:3]), what='false-error', exception=res[1], **facts)
            elif rescls == 'foreign':
                if not faulted:
                    V('C14.1-right-file', 'reader raised %s: %s' % (res[1], str(res[2])[:100]), what='foreign-exception', exception=res[1], blocked=bool(blockers), **facts)
                else:
                    w.probe('foreign-exception-under-fault:%s' % res[1])
            all_res.append([name, rescls, res[1] if rescls != 'ok' else [res[1].file, res[1].mtime]])
        fp, fph = w.fingerprints(extra=all_res)
        matched = ''
        if rescls == 'ok':
            matched = 'core' if res[1].file in corev else 'fuzzy'
        sig = json.dumps([scn['kind'], facts['maxdepth'], facts['options'], bool(scn.get('maxMibSize')), facts['index'], rescls, matched, sorted(w.fired),
                          scn.get('recursive', True), scn.get('url_style')])
        probes = dict(w.probes)
        probes['result:' + rescls] = 1
        if rescls == 'ok' and scn['kind'] == 'zip':
            dd = [l['depth'] for l in A_wide if l['base'] == res[1].file]
            if dd:
                probes['zip-depth-read:%d' % max(dd)] = 1
        if blockers:
            probes['size-cap-or-corrupt-candidate'] = 1
        return {'violations': viol, 'sig': sig, 'nontrivial': len(scn['tree']) >= 2 or bool(w.fired), 'events': len(w.log), 'sim_s': 0,
                'fired': dict(w.fired), 'probes': probes, 'fp': fp, 'fph': fph, 'comps': {'reader.getData(real)': max(1, len(results))}, 'result': rescls}
    finally:
        if tz:
            os.environ['TZ'] = 'UTC'
            time.tzset()
        if scn.get('chdir'):
            os.chdir(CWD0)
        core.drop_root(root)


# --------------------------------------------------------------------------
URLS = [
    ('/some/dir', 'FileReader', {}),
    ('some/relative/dir', 'FileReader', {}),
    ('file:///some/dir', 'FileReader', {}),
    ('/some/arch.zip', 'ZipReader', {}),
    ('/some/ARCH.ZIP', 'ZipReader', {}),
    ('zip:///some/arch.zip', 'ZipReader', {}),
    ('http://mibs.example.com/asn1/@mib@', 'HttpReader', {'url': 'http://mibs.example.com:80/asn1/@mib@'}),
    ('http://mibs.example.com:8080/asn1/@mib@', 'HttpReader', {'url': 'http://mibs.example.com:8080/asn1/@mib@'}),
    ('https://mibs.example.com/asn1/@mib@', 'HttpReader', {'url': 'https://mibs.example.com:80/asn1/@mib@'}),
    ('https://h.example:8443/x/', 'HttpReader', {'url': 'https://h.example:8443/x/'}),
    ('ftp://user:pw@ftp.example.com/pub/@mib@', 'FtpReader', {'host': 'ftp.example.com', 'user': 'user', 'password': 'pw', 'port': 21, 'ssl': False}),
    ('ftp://ftp.example.com:2121/pub/@mib@', 'FtpReader', {'host': 'ftp.example.com', 'user': 'anonymous', 'port': 2121, 'ssl': False}),
    ('sftp://ftp.example.com/pub/@mib@', 'FtpReader', {'host': 'ftp.example.com', 'ssl': True}),
    ('gopher://example.com/x', 'ERROR', {}),
    ('smb://example.com/x', 'ERROR', {}),
    ('ftp://ftp.example.com/pub/nomagic', 'ERROR', {}),
]


def run_url(scn):
    from pysmi import error
    from pysmi.reader.url import getReadersFromUrls
    viol = []

    def V(clause, msg, **facts):
        viol.append({'clause': clause, 'key': '%s|%s' % (clause, facts.get('what', '')), 'facts': facts, 'message': msg})
    url, want, attrs = URLS[scn['url']]
    w = core.World()
    net = core.partitioned_network()
    with net:
        with w:
            w.begin_op(0, 'url')
            try:
                rs = getReadersFromUrls(url, **scn.get('options', {}))
                got = type(rs[0]).__name__ if len(rs) == 1 else 'COUNT:%d' % len(rs)
                r = rs[0] if rs else None
            except error.PySmiError:
                got, r = 'ERROR', None
            except BaseException as e:  # noqa
                got, r = 'FOREIGN:%s' % type(e).__name__, None
            w.end_op(got)
    opened = [1] * net.attempts
    if got != want:
        V('C14.5-url', 'URL %s mapped to %s, its scheme/extension denote %s' % (url, got, want), what='url-kind', url=url)
    elif r is not None:
        if want == 'HttpReader' and getattr(r, '_url', None) != attrs['url']:
            V('C14.5-url', 'URL %s gives HTTP reader for %r, expected %r' % (url, getattr(r, '_url', None), attrs['url']), what='http-params', url=url)
        if want == 'FtpReader':
            for k, v in attrs.items():
                if getattr(r, '_' + k, None) != v:
                    V('C14.5-url', 'URL %s: FTP reader %s=%r, expected %r' % (url, k, getattr(r, '_' + k, None), v), what='ftp-params', url=url)
        for k, v in scn.get('options', {}).items():
            if getattr(r, k, None) != v:
                V('C14.5-url', 'reader option %s not applied' % k, what='option')
    if opened:
        V('C14.5-url', 'constructing a reader opened a socket', what='socket')
    fp, fph = w.fingerprints(extra=[got])
    return {'violations': viol, 'sig': 'url|%s|%s' % (url, got), 'nontrivial': True, 'events': len(w.log), 'sim_s': 0, 'fired': {}, 'probes': {'url-world': 1},
            'fp': fp, 'fph': fph, 'comps': {'getReadersFromUrls(real)': 1}, 'result': got}


# --------------------------------------------------------------------------
def _data(e):
    """payload of a tree entry (a few entries carry megabytes of trailing blanks, kept out of the scenario as a count)"""
    if e.get('padkind') == 'random' and e.get('pad'):
        import random as _r
        return binascii.unhexlify(e['hex']) + b'\n-- ' + _r.Random(int(e['pad'])).randbytes(int(e['pad'])).replace(b'\n', b' ').replace(b'\r', b' ')
    return binascii.unhexlify(e['hex']) + b' ' * int(e.get('pad', 0))


def _hex(b):
    return binascii.hexlify(b).decode()


def gen_content(rng, tag):
    r = rng.random()
    if r < 0.6:
        b = ('-- %s\n%s DEFINITIONS ::= BEGIN END\n' % (tag, tag.split('/')[-1].upper())).encode()
    elif r < 0.75:
        b = ('text of %s é漢\n' % tag).encode('utf-8')
    elif r < 0.9:
        b = b'\xff\xfe bad utf8 \xc3 ' + tag.encode() + b'\x80 end'
    elif r < 0.95:
        b = b''
    else:
        b = (tag.encode() + b'|') * rng.choice([10, 40])
    return b


SWEEP_SET = {'quick': 'a file / archive member / nested-archive member of just over 10 000 000 bytes (the readers\' default size limit) with the limit raised to 25 000 000, and with the default limit; a directory whose .index maps the request to another file, with useIndexFile on and off and another URL before / after it in the same call',
             'thorough': 'same'}


def sweep(tier):
    out = []
    body = _hex(b'BIG-MIB DEFINITIONS ::= BEGIN\nEND\n')
    for kind, path, padkind in (('dir', 'BIG-MIB.mib', None), ('dir', 'sub/BIG-MIB.txt', None), ('zip', 'BIG-MIB.mib', None), ('zip', 'inner.zip!/d/BIG-MIB', 'random')):
        for cap in (25000000, None):
            e = {'path': path, 'hex': body, 'mtime': SEASONS[0], 'pad': 10000100}
            if padkind:
                e['padkind'] = padkind
            scn = {'kind': kind, 'request': 'BIG-MIB', 'options': {}, 'tree': [e, {'path': 'OTHER-MIB.txt', 'hex': _hex(b'OTHER-MIB DEFINITIONS ::= BEGIN\nEND\n'), 'mtime': SEASONS[0]}],
                   'listing_seed': 7, 'url_style': 'bare'}
            if kind == 'zip':
                scn['zipext'] = '.zip'
            if cap:
                scn['maxMibSize'] = cap
            out.append(scn)
    # the .index mapping switched off by the caller, with another source URL before or after the directory in the same call
    for dec in ('zip-before', 'dir-before', 'zip-after', None):
        for use in (False, True):
            scn = {'kind': 'dir', 'request': 'FOO-MIB', 'options': {}, 'listing_seed': 11, 'url_style': 'bare', 'index': [['FOO-MIB', 'QUX.dat']], 'useIndexFile': use,
                   'tree': [{'path': 'FOO-MIB.txt', 'hex': _hex(b'FOO-MIB DEFINITIONS ::= BEGIN\nEND\n'), 'mtime': SEASONS[1]},
                            {'path': 'QUX.dat', 'hex': _hex(b'QUX-MIB DEFINITIONS ::= BEGIN\nEND\n'), 'mtime': SEASONS[2]}]}
            if dec:
                scn['decoy'] = dec
            out.append(scn)
    return out


def generate(rng, tier):
    if rng.random() < 0.06:
        return {'mode': 'url', 'url': rng.randrange(len(URLS)), 'options': rng.choice([{}, {'fuzzyMatching': False}, {'lowcaseMatching': False}])}
    kind = rng.choice(['dir', 'zip'])
    name = rng.choice(['FOO-MIB', 'Foo-Mib', 'foo', 'BAR', 'Bar-Types', 'x-mib'])
    o = {}
    for k in OPTS:
        if rng.random() < 0.2:
            o[k] = False
    if not any(o.get(k, True) for k in OPTS[1:]):
        o.pop(rng.choice(OPTS[1:]))
    cands = sorted(with_exts(wide_names(name, {})))
    near = [name + '.bak', name + 'x', 'x' + name, name[:-1] or 'q', name + '.txt.orig', name.lower() + '.text', 'OTHER-MIB', 'OTHER-MIB.txt', name + '-mib2', name.upper() + '.MIB~']
    dirs = ['', '', 'sub', 'sub/deep', 'other', 'sub/deep/deeper']
    zdirs = ['', 'd/', 'inner.zip!/', 'inner.zip!/d/', 'inner.zip!/in2.ZIP!/', 'a/inner.zip!/in2.ZIP!/d/in3.zip!/', 'notzip.bin!/']
    n = rng.choice([0, 1, 2, 3, 4, 6])
    tree = []
    used = set()
    for i in range(n):
        base = rng.choice(cands) if rng.random() < 0.65 else rng.choice(near)
        if kind == 'dir':
            d = rng.choice(dirs)
            path = (d + '/' if d else '') + base
        else:
            path = rng.choice(zdirs) + base
        if path in used or any(p.startswith(path + '/') or path.startswith(p + '/') for p in used):
            continue
        used.add(path)
        e = {'path': path, 'hex': _hex(gen_content(rng, path)), 'mtime': rng.choice(SEASONS) + 2 * rng.randrange(0, 600000)}
        if kind == 'dir' and rng.random() < 0.08:
            e['mtime'] = rng.choice([0, 0, 1, 2])      # stamped with the Epoch (reproducible builds, image layers)
        if kind == 'zip' and rng.random() < 0.06:
            e['corrupt'] = True
        tree.append(e)
    scn = {'kind': kind, 'request': name, 'options': o, 'tree': tree, 'listing_seed': rng.randrange(1 << 30)}
    if rng.random() < 0.3:
        # several look-ups through one reader object: other module names with files of their own, for ZIPs
        # preferably in same-named inner archives of sibling containers
        others = [x for x in ['QUX-MIB', 'Zed', 'OTHER-MIB'] if x != name][:rng.choice([1, 2])]
        for j, on in enumerate(others):
            base = on + rng.choice(['', '.txt', '.mib'])
            if kind == 'dir':
                path = rng.choice(['', 'sub/', 'other/']) + base
            else:
                path = rng.choice(['vendor%d.zip!/mibs.zip!/' % (j + 1), 'vendor%d.zip!/mibs.zip!/d/' % (j + 1), 'inner.zip!/in2.ZIP!/', '']) + base
            if path not in used and not any(p.startswith(path + '/') or path.startswith(p + '/') for p in used):
                used.add(path)
                tree.append({'path': path, 'hex': _hex(gen_content(rng, path)), 'mtime': rng.choice(SEASONS) + 2 * rng.randrange(0, 600000)})
        if kind == 'zip' and rng.random() < 0.7:
            path = 'vendor9.zip!/mibs.zip!/' + rng.choice(cands)
            if path not in used:
                used.add(path)
                tree.append({'path': path, 'hex': _hex(gen_content(rng, path)), 'mtime': rng.choice(SEASONS) + 2 * rng.randrange(0, 600000)})
        scn['more_requests'] = others
    if rng.random() < 0.2:
        scn['decoy'] = rng.choice(['zip-before', 'dir-before', 'zip-after', 'dir-after'])
    if rng.random() < 0.12:
        scn['plus_name'] = True
    if kind == 'dir' and rng.random() < 0.15:
        scn['linkdir'] = rng.randrange(1, 7)
    if kind == 'dir':
        scn['url_style'] = rng.choice(['bare', 'bare', 'file', 'file', 'file-host'])
        if rng.random() < 0.2:
            scn['recursive'] = False
        if rng.random() < 0.15:
            scn['ignoreErrors'] = False
        if rng.random() < 0.2:
            tgt = rng.choice([os.path.basename(e['path']) for e in tree] + ['nosuchfile.txt'])
            deep = [e['path'] for e in tree if '/' in e['path'] and '!/' not in e['path']]
            if deep and rng.random() < 0.3:
                tgt = rng.choice(deep)        # the index names the file with its directory
            scn['index'] = [[name if rng.random() < 0.7 else 'UNRELATED-MIB', tgt]]
            if rng.random() < 0.2:
                scn['useIndexFile'] = False
        if rng.random() < 0.2:
            scn['empty_dirs'] = ['emptydir', name]   # a directory named like the module
        if rng.random() < 0.15:
            # the tree changes while the reader object is alive: files appear (preferably in a new directory below an
            # existing one, so that the searched directory itself is not modified), are replaced, or vanish
            have = sorted(set(os.path.dirname(e['path']) for e in tree if '/' in e['path']))
            late = []
            for _ in range(rng.choice([1, 1, 2])):
                d0 = (rng.choice(have) + '/' + rng.choice(['late', 'late/er'])) if have and rng.random() < 0.7 else rng.choice(['fresh', 'fresh/deep', 'sub/new', ''])
                base = rng.choice(cands) if rng.random() < 0.8 else rng.choice(near)
                path = (d0 + '/' if d0 else '') + base
                if any(p.startswith(path + '/') or path.startswith(p + '/') for p in used) or path in [x['path'] for x in late] \
                        or any(path == d_ or path.startswith(d_ + '/') for d_ in scn.get('empty_dirs', [])):
                    continue
                late.append({'path': path, 'hex': _hex(gen_content(rng, 'late:' + path)), 'mtime': rng.choice(SEASONS) + 2 * rng.randrange(0, 600000)})
            if late:
                scn['late'] = late
            if tree and rng.random() < 0.3:
                scn['late_remove'] = [rng.choice(tree)['path']]
            if (scn.get('late') or scn.get('late_remove')) and not scn.get('more_requests'):
                scn['repeat'] = 2
    else:
        scn['url_style'] = rng.choice(['bare', 'bare', 'zip', 'zip', 'zip-host'])
        scn['zipext'] = rng.choice(['.zip', '.zip', '.ZIP'])
        if rng.random() < 0.04:
            scn['notazip'] = True
        if rng.random() < 0.1:
            scn['ignoreErrors'] = False
        if rng.random() < 0.08:
            scn['chdir'] = True
            scn['url_style'] = 'bare'
    if rng.random() < 0.15:
        sizes = sorted(set(len(binascii.unhexlify(e['hex'])) for e in tree if e['hex']))
        scn['maxMibSize'] = rng.choice(sizes + [s + 1 for s in sizes] + [16, 64]) if sizes else 16
    big = rng.random() < 0.004
    if big and tree:
        # one file of just over 10 000 000 bytes (the readers' default size limit) with the limit raised well above it
        e_ = rng.choice(tree)
        if not e_['path'].lower().endswith('.zip'):
            e_['pad'] = 10000100 - len(e_['hex']) // 2
            if '!/' in e_['path']:
                e_['padkind'] = 'random'      # incompressible: the nested archive that carries it is itself over 10 MB
            scn['maxMibSize'] = 25000000
    if rng.random() < 0.25 and not big:
        scn['rate'] = {'p': rng.choice([0.03, 0.1, 0.3]), 'seed': rng.randrange(1 << 30),
                       'sites': sorted(rng.sample(['os.stat', 'os.listdir', 'open', 'file.read'], rng.randrange(1, 5)))}
    if rng.random() < 0.2:
        scn['repeat'] = 2
    tz = rng.choice(ZONES)
    if tz:
        scn['tz'] = tz
    if rng.random() < 0.15:
        scn['second_opts'] = rng.choice([{'fuzzyMatching': False}, {'lowcaseMatching': False, 'uppercaseMatching': False}, {'originalMatching': False}, {}])
    return scn


def shrink(scn):
    if scn.get('mode') == 'url':
        return
    if scn.get('rate'):
        s = copy.deepcopy(scn)
        s.pop('rate')
        yield s
    for i in range(len(scn['tree'])):
        s = copy.deepcopy(scn)
        del s['tree'][i]
        yield s
    for i, e in enumerate(scn['tree']):
        if e.get('pad'):
            s = copy.deepcopy(scn)
            s['tree'][i].pop('pad')
            yield s
    for k in ('late', 'late_remove', 'chdir', 'maxMibSize', 'index', 'empty_dirs', 'repeat', 'recursive', 'ignoreErrors', 'useIndexFile', 'notazip', 'more_requests', 'tz', 'second_opts', 'decoy', 'linkdir'):
        if k in scn:
            s = copy.deepcopy(scn)
            s.pop(k)
            yield s
    for k in sorted(scn.get('options', {})):
        s = copy.deepcopy(scn)
        del s['options'][k]
        yield s
    for i, e in enumerate(scn['tree']):
        if len(e['hex']) > 8:
            s = copy.deepcopy(scn)
            s['tree'][i]['hex'] = _hex(b'abc\n')
            yield s
        if '!/' in e['path'] or '/' in e['path']:
            s = copy.deepcopy(scn)
            segs = e['path'].split('!/')
            if len(segs) > 1:
                s['tree'][i]['path'] = '!/'.join(segs[1:])
            else:
                s['tree'][i]['path'] = os.path.basename(e['path'])
            if s['tree'][i]['path'] not in [x['path'] for x in scn['tree']]:
                yield s


def size(scn):
    return {'entries': len(scn.get('tree', [])), 'rate': bool(scn.get('rate'))}


def describe(scn, out):
    d = {k: v for k, v in scn.items() if k != '_world'}
    if 'tree' in d:
        d = dict(d)
        d['tree'] = [{'path': e['path'], 'bytes': len(e['hex']) // 2, 'mtime': e['mtime']} for e in d['tree']]
    return {'scenario': d, 'result': out.get('result'), 'faults_fired': out.get('fired')}
