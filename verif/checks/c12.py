"""C12 - results depend only on the input: no state leaks, no hash-seed
dependence.  history-sim: long-lived parser / compiler / generator objects
driven through histories of valid and failing operations, compared operation
by operation with fresh objects, with repetitions, and with the same history
executed in child interpreters whose PYTHONHASHSEED the simulator chooses."""
import copy
import json
import os
import select
import subprocess
import sys

from verif import VERIF_DIR
from verif.engines import history_sim as hs
from verif.gen import mibgen
from verif.sim import core

PROPERTY = 'C12'
ENGINE = 'history-sim'
LEVEL = 'exploration'
QUICK_S = 55
THOROUGH_S = 480
CHUNK = 4
MINIMISE_S = 25
WORLD_CAP_S = 120
SELFCHECK_N = {'quick': 6, 'thorough': 20}
REAL_COMPONENTS = ['parser objects of the three shipped dialects (long-lived)', 'MibCompiler with its internal SymtableCodeGen (long-lived)', 'JsonCodeGen / PySnmpCodeGen (long-lived)',
                   'fs histories: FileReader, ZipReader, AnyFileSearcher, PyFileSearcher, StubSearcher, AnyFileBorrower, PyFileBorrower, FileWriter, PyFileWriter (long-lived, on the interposed filesystem)',
                   'JsonCodeGen.genIndex', 'the same objects created fresh per operation (reference)', 'child interpreters with other PYTHONHASHSEED values']
STUB_COMPONENTS = ['sources/writer of the in-memory compile operations (callbacks over texts)', 'clock and host identity (pinned, so that generated comments are inputs)',
                   'errno / short-write outcomes of os.* calls during faulted fs calls (injected)',
                   'LALR table generation for *reference* parser objects (tables written once per process by PLY itself are loaded instead); reference results of parse / corpus-compile operations are computed once per process']
RULE = ('seeded histories of 3-10 operations: parse(valid corpus file | 11 kinds of failing text incl. failures inside MACRO/EXPORTS/CHOICE/comment/string), '
        'compile(generated module set with healthy and defective members, SMIv1 INDEX types, refined enumerated types used by other modules, with/without REVISION; one or several requested modules in any order; json or pysnmp), '
        'genIndex(earlier results), repeat(earlier op); for joint calls every written module is also compiled alone by fresh objects (its text must not depend on what else the call compiled); '
        'fs histories (30 % of the seeded worlds): 2-5 compile() calls on one compiler with real readers/searcher/borrowers/writer, some under seeded I/O faults, source files changing in between; every fault-free call vs fresh objects over a copy of the tree, rebuild calls also vs fresh objects over a pristine tree; '
        'each history runs in the parent (hash seed 0) and in 2 child interpreters with hash seeds from a palette of 5; '
        'distinct = distinct (sequence of op kinds and outcomes, child seeds); non-trivial = every history (>=3 operations on long-lived objects)')
ASSUMPTIONS = ['behaviour after asynchronous exceptions (no input can cause them) is not demanded',
               'the virtual clock and host identity are pinned: the comment header of generated code is an input here']
PALETTE = [1, 2, 3, 7, 1234567]
_children = {}


def child(seed):
    p = _children.get(seed)
    if p is not None and p.poll() is None:
        return p
    env = dict(os.environ)
    env['PYTHONHASHSEED'] = str(seed)
    env['VERIF_NO_REEXEC'] = '1'
    p = subprocess.Popen([sys.executable, '-B', '-m', 'verif.child'], cwd=VERIF_DIR, env=env, stdin=subprocess.PIPE, stdout=subprocess.PIPE,
                         stderr=subprocess.DEVNULL, text=True, bufsize=1)
    _children[seed] = p
    return p


def ask_child(seed, hist, timeout=90):
    p = child(seed)
    try:
        p.stdin.write(json.dumps(hist) + '\n')
        p.stdin.flush()
        r, _, _ = select.select([p.stdout], [], [], timeout)
        if not r:
            p.kill()
            _children.pop(seed, None)
            return None, 'child with hash seed %s silent for %ss' % (seed, timeout)
        line = p.stdout.readline()
        if not line:
            _children.pop(seed, None)
            return None, 'child with hash seed %s died' % seed
        out = json.loads(line)
        if not out.get('ok'):
            return None, 'child error: %s' % out.get('error')
        return out['recs'], None
    except (BrokenPipeError, OSError) as e:
        _children.pop(seed, None)
        return None, 'child pipe: %s' % e


def ask_children(seeds, hist, timeout=120):
    """send the history to all children first, then collect (they work in parallel)"""
    out = {}
    sent = []
    for seed in seeds:
        p = child(seed)
        try:
            p.stdin.write(json.dumps(hist) + '\n')
            p.stdin.flush()
            sent.append((seed, p))
        except (BrokenPipeError, OSError) as e:
            _children.pop(seed, None)
            out[seed] = (None, 'child pipe: %s' % e)
    for seed, p in sent:
        try:
            r, _, _ = select.select([p.stdout], [], [], timeout)
            if not r:
                p.kill()
                _children.pop(seed, None)
                out[seed] = (None, 'child with hash seed %s silent for %ss' % (seed, timeout))
                continue
            line = p.stdout.readline()
            if not line:
                _children.pop(seed, None)
                out[seed] = (None, 'child with hash seed %s died' % seed)
                continue
            res = json.loads(line)
            out[seed] = (res['recs'], None) if res.get('ok') else (None, 'child error: %s' % res.get('error'))
        except (BrokenPipeError, OSError, ValueError) as e:
            _children.pop(seed, None)
            out[seed] = (None, 'child pipe: %s' % e)
    return out


def run(scn):
    viol = []

    def V(clause, msg, **facts):
        key = '%s|%s|%s' % (clause, facts.get('opkind', ''), facts.get('what', ''))
        viol.append({'clause': clause, 'key': key, 'facts': facts, 'message': msg})
    hist = {'ops': scn['ops']}
    if scn.get('table_cache'):
        hist['table_cache'] = True
    if scn.get('listing_seed') is not None:
        hist['listing_seed'] = scn['listing_seed']
    recs = hs.run_history(hist)
    ops = scn['ops']
    shape = []
    for i, r in enumerate(recs):
        op = ops[i]
        base = ops[op['of']] if op['op'] == 'repeat' else op
        desc = base.get('bad') or (base.get('codegen') if base['op'] == 'compile' else base['op'])
        shape.append((base['op'], 'F' if r['failed'] else 'ok'))
        earlier_failed = sorted(set((ops[j].get('bad') or ops[j]['op']) for j in range(i) if recs[j]['failed']))
        if not r['same']:
            V('C12.1-fresh-instance', 'operation %d (%s %s) on the long-lived objects differs from the same operation on fresh objects: %s' % (
                i, base['op'], desc, hs.diff_obs(r['obs'], r['fresh_obs'])), opkind=base['op'], what=_difftag(r['obs'], r['fresh_obs']),
              after_failures=earlier_failed, position=i)
        if r.get('pristine') and r['pristine'][0] != r['pristine'][1]:
            V('C12.5-after-faults', 'operation %d (compile with rebuild over real readers/searcher/writer, no fault in this call) differs from the same call by fresh objects over a tree that never saw a fault or an earlier call: %s' % (
                i, hs.diff_obs(r['pristine'][0], r['pristine'][1])), opkind='fsc', what=_difftag(r['pristine'][0], r['pristine'][1]),
              faults_before=sum(recs[j].get('faults_fired', 0) for j in range(i)))
        for m, pair in sorted(r.get('solo', {}).items()):
            joint, alone = pair[0], pair[1]
            if len(pair) == 4 and pair[2] != pair[3]:
                V('C12.4-context', 'operation %d: the summary reported for %s by compile(%s) differs from the one reported by compile(%s) on fresh objects over the same sources with the same options: %s' % (
                    i, m, ', '.join(base['requested']), m, hs.diff_obs(pair[2], pair[3])), opkind='compile', what='co-compiled-summary:' + _difftag(pair[2], pair[3]), module=m)
            if joint != alone:
                V('C12.4-context', 'operation %d: the text written for %s by compile(%s) differs from the text written for it by compile(%s) on fresh objects over the same sources with the same options' % (
                    i, m, ', '.join(base['requested']), m), opkind='compile', what='co-compiled', module=m)
        for m, (got, ref) in sorted(r.get('permod', {}).items()):
            if got != ref:
                V('C12.4-context', 'operation %d: the text compile(%s) wrote for %s differs from the text produced by a symbol-table builder and a code generator made for that module alone' % (
                    i, ', '.join(base['requested']), m), opkind='compile', what='per-module-fresh-objects', module=m)
        if op['op'] == 'repeat':
            first = recs[op['of']]
            if first['long'] != r['long']:
                V('C12.2-repeat', 'operation %d repeats operation %d but yields something else: %s' % (i, op['of'], hs.diff_obs(first['obs'], r['obs'])),
                  opkind=base['op'], what=_difftag(first['obs'], r['obs']))
    herr = None
    nchild = 0
    chist = dict(hist)
    chist['fresh'] = bool(scn.get('child_fresh', True))
    seeds = list(scn.get('child_hash_seeds', []))
    answers = ask_children(seeds, chist)
    for seed in seeds:
        crecs, err = answers[seed]
        if err:
            herr = err
            break
        nchild += 1
        for i, (a, b) in enumerate(zip(recs, crecs)):
            op = ops[i]
            base = ops[op['of']] if op['op'] == 'repeat' else op
            if scn.get('child_fresh', True) and a['fresh'] != b['fresh']:
                V('C12.3-hash-seed', 'operation %d (%s) on fresh objects yields different results under PYTHONHASHSEED=0 and =%s: %s' % (
                    i, base['op'], seed, hs.diff_obs(a['fresh_obs'], b['fresh_obs'])), opkind=base['op'], what=_difftag(a['fresh_obs'], b['fresh_obs']), child_seed=seed)
            elif a['long'] != b['long']:
                V('C12.3-hash-seed', 'operation %d (%s) on the long-lived objects yields different results under PYTHONHASHSEED=0 and =%s: %s' % (
                    i, base['op'], seed, hs.diff_obs(a['obs'], b['obs'])), opkind=base['op'], what='long:' + _difftag(a['obs'], b['obs']), child_seed=seed)
    sig = json.dumps([shape, sorted(scn.get('child_hash_seeds', []))])
    import hashlib
    fp = hashlib.sha256(json.dumps([[r['long'], r['fresh']] for r in recs]).encode()).hexdigest()[:32]
    fph = hashlib.sha256(json.dumps([[o['op'], o.get('bad'), o.get('of')] for o in ops] + shape).encode()).hexdigest()[:32]
    fired = {'failing-operation': sum(1 for r in recs if r['failed'])} if any(r['failed'] for r in recs) else {}
    nio = sum(r.get('faults_fired', 0) for r in recs)
    if nio:
        fired['io-fault-during-fs-compile'] = nio
    out = {'violations': viol, 'sig': sig, 'nontrivial': True, 'events': len(recs) * (2 + 2 * nchild), 'sim_s': 0,
           'fired': fired,
           'probes': {'histories': 1, 'child-runs': nchild, 'ops': len(recs), 'ops-after-a-failure': sum(1 for i in range(len(recs)) if any(recs[j]['failed'] for j in range(i))),
                      'modules-also-compiled-alone': sum(len(r.get('solo', {})) for r in recs),
                      'modules-also-generated-by-per-module-objects': sum(len(r.get('permod', {})) for r in recs),
                      'fs-history': 1 if any(r['kind'] == 'fsc' for r in recs) else 0,
                      'fs-call-clean-after-faulted-call': sum(1 for i, r in enumerate(recs) if r['kind'] == 'fsc' and not r.get('faulted') and any(recs[j].get('faults_fired') for j in range(i))),
                      'fs-call-compared-with-pristine-tree': sum(1 for r in recs if r.get('pristine'))},
           'fp': fp, 'fph': fph, 'comps': {'operations(long-lived)': len(recs), 'operations(fresh)': len(recs), 'operations(child interpreters)': len(recs) * nchild}, 'shape': shape}
    if herr:
        out['harness_error'] = herr
    return out


def _difftag(a, b):
    d = hs.diff_obs(a, b)
    path = d.split(':', 1)[0]
    # keep the structural part of the path (drop module names / indexes)
    parts = [p for p in path.replace('[', '/[').split('/') if p and not p.startswith('[') and not p.endswith('-MIB') and not p.startswith('SNMPv2') and not p.startswith('RFC')]
    return '/'.join(parts[-2:]) or 'value'


def gen_compile_op(rng, tier):
    if rng.random() < 0.3:
        # modules of the hand-built corpus: tables, rows, columns, compliance, capabilities, SMIv1 traps; 'full' and
        # 'fullalt' share the module name and symbol names but not the roles of the symbols
        cname = rng.choice(['full', 'fullalt', 'full', 'fullalt', 'v1', 'small', 'quirky', 'quirky'])
        mname = {'full': 'FULL-MIB', 'fullalt': 'FULL-MIB', 'v1': 'OLD-MIB', 'small': 'AAA-MIB', 'quirky': 'QUIRK-MIB'}[cname]
        op = {'op': 'compile', 'modules': {}, 'corpus': [cname], 'requested': [mname], 'codegen': 'pysnmp' if rng.random() < 0.1 else 'json', 'options': {}}
        if rng.random() < 0.4:
            op['options']['genTexts'] = True
        if rng.random() < 0.3:
            op['options']['keepLayout'] = True
        if rng.random() < 0.5:
            op['solo'] = True        # also produced module by module with objects made for each module alone
        return op
    n = rng.choice([1, 2, 2, 3])
    specs = mibgen.gen_modules(rng, n, cycles=rng.random() < 0.3, defects=rng.choice([0.0, 0.0, 0.3]), smiv1=0.2, identity=0.6, oiddefval=0.15, enumtc=rng.choice([0.0, 0.5, 0.8]))
    for sp in specs.values():
        if rng.random() < 0.2:
            sp['fakeidx'] = True
        if rng.random() < 0.25:
            sp['dupobj'] = True
            sp['compliance'] = True
    op = {'op': 'compile', 'modules': specs, 'requested': [sorted(specs)[-1]], 'codegen': 'pysnmp' if rng.random() < 0.06 else 'json', 'options': {}}
    for name, p in (('genTexts', .3), ('ignoreErrors', .5), ('noDeps', .15), ('rebuild', .1), ('keepLayout', .2)):
        if rng.random() < p:
            op['options'][name] = True
    if rng.random() < 0.15:
        op['absent'] = [rng.choice(sorted(specs))]
    if n > 1 and rng.random() < 0.45:
        # several requested modules in an arbitrary order; each module's text is then also produced on its own
        req = rng.sample(sorted(specs), rng.randrange(2, n + 1))
        op['requested'] = req
        op['solo'] = True
    elif rng.random() < 0.3:
        op['solo'] = True
    return op


def _fixed_spec(name, **kw):
    sp = {'name': name, 'imports': [], 'oidparent': None, 'arc': 48, 'identity': False, 'nobj': 2, 'arcs': [1, 2], 'compliance': False, 'variant': 'ok'}
    sp.update(kw)
    return sp


def catalog():
    """(state-leaving operations, probing operations) for the pairwise sweep"""
    d = 'smiV1Relaxed'
    leaving = [{'op': 'parse', 'dialect': d, 'bad': b} for b in sorted(hs.BAD_TEXTS)]
    leaving += [{'op': 'parse', 'dialect': d, 'file': k, 'tail': 'comment'} for k in (0, 2, 3)]
    for cname, mname in (('full', 'FULL-MIB'), ('fullalt', 'FULL-MIB'), ('v1', 'OLD-MIB'), ('quirky', 'QUIRK-MIB')):
        leaving.append({'op': 'compile', 'modules': {}, 'corpus': [cname], 'requested': [mname], 'codegen': 'json', 'options': {'genTexts': True}})
    leaving.append({'op': 'compile', 'modules': {}, 'corpus': ['full'], 'requested': ['FULL-MIB'], 'codegen': 'json', 'options': {'genTexts': True, 'keepLayout': True}})
    leaving.append({'op': 'compile', 'modules': {}, 'corpus': ['full'], 'requested': ['FULL-MIB'], 'codegen': 'pysnmp', 'options': {}})
    for tag, kw in (('rev', {'identity': True, 'revisions': ['202001010000Z'], 'compliance': True}), ('latefail', {'variant': 'latefail', 'compliance': True}),
                    ('fakeidx', {'fakeidx': True}), ('badref', {'variant': 'badref'}), ('dupsym', {'variant': 'dupsym'}), ('unkparent', {'variant': 'unkparent'}),
                    ('dupobj', {'dupobj': True, 'compliance': True}), ('v1', {'smiv1': True})):
        leaving.append({'op': 'compile', 'modules': {'AAA-MIB': _fixed_spec('AAA-MIB', **kw)}, 'requested': ['AAA-MIB'], 'codegen': 'json', 'options': {'ignoreErrors': True}})
    leaving.append({'op': 'compile', 'modules': {'AAA-MIB': _fixed_spec('AAA-MIB')}, 'absent': ['AAA-MIB'], 'requested': ['AAA-MIB'], 'codegen': 'json', 'options': {}})
    leaving.append({'op': 'read', 'name': 'FOO-MIB', 'omit': [], 'ropts': {}})
    probing = [{'op': 'parse', 'dialect': d, 'file': k, 'tail': 'first-line'} for k in (0, 2, 3)]
    probing += [{'op': 'parse', 'dialect': d, 'file': 1}, {'op': 'parse', 'dialect': d, 'bad': 'grammar-late'}, {'op': 'parse', 'dialect': d, 'bad': 'lex-initial'},
                {'op': 'parse', 'dialect': d, 'bad': 'multiline-string-then-error'}, {'op': 'parse', 'dialect': d, 'bad': 'no-header-illegal'},
                {'op': 'parse', 'dialect': d, 'bad': 'no-header-lower'}, {'op': 'parse', 'dialect': d, 'bad': 'name-only'}]
    for cname, mname in (('full', 'FULL-MIB'), ('fullalt', 'FULL-MIB'), ('small', 'AAA-MIB'), ('v1', 'OLD-MIB')):
        probing.append({'op': 'compile', 'modules': {}, 'corpus': [cname], 'requested': [mname], 'codegen': 'json', 'options': {'genTexts': True}})
    probing.append({'op': 'compile', 'modules': {'BBB-MIB': _fixed_spec('BBB-MIB', arc=10)}, 'requested': ['BBB-MIB'], 'codegen': 'json', 'options': {}})
    probing.append({'op': 'compile', 'modules': {'BBB-MIB': _fixed_spec('BBB-MIB', arc=10, fakeidx=True)}, 'requested': ['BBB-MIB'], 'codegen': 'json', 'options': {'ignoreErrors': True}})
    probing.append({'op': 'compile', 'modules': {'AAA-MIB': _fixed_spec('AAA-MIB', arcs=[5], nobj=1)}, 'requested': ['AAA-MIB'], 'codegen': 'json', 'options': {}})
    probing.append({'op': 'read', 'name': 'foo-mib', 'omit': [], 'ropts': {}})
    return leaving, probing


SWEEP_SET = {'quick': 'every pair (state-leaving operation, probing operation) of the catalog, on long-lived objects vs fresh objects (no child interpreters); 6 joint-vs-alone calls over modules sharing a refined enumerated type',
             'thorough': 'same, plus every triple ending in a repeat of the first operation'}


def sweep(tier):
    import copy as _c
    leaving, probing = catalog()
    out = []
    for a in leaving:
        for b in probing:
            ops = [_c.deepcopy(a), _c.deepcopy(b)]
            if tier == 'thorough':
                ops.append({'op': 'repeat', 'of': 0})
            out.append({'ops': ops, 'child_hash_seeds': [], 'pair': True})
    # diagnostic logging on: failing texts without any line feed, followed by texts whose outcome shows a stale line counter or lexer state
    for bad in ('cr-only-error', 'one-line-comment', 'eof-comment', 'lex-macro'):
        for b in probing[:7]:
            out.append({'ops': [{'op': 'parse', 'dialect': 'smiV1Relaxed', 'bad': bad}, _c.deepcopy(b)], 'child_hash_seeds': [], 'pair': True, 'debug': True})
    # one grammar-table cache directory shared by parsers of different dialects (strict first, relaxed afterwards and the other way round)
    for d1, d2 in (('smiV2', 'smiV1Relaxed'), ('smiV2', 'smiV1'), ('smiV1Relaxed', 'smiV2')):
        for k in (0, 1, 2, 3):
            out.append({'ops': [{'op': 'parse', 'dialect': d1, 'file': k}, {'op': 'parse', 'dialect': d2, 'file': k}, {'op': 'parse', 'dialect': d2, 'file': 3}],
                        'child_hash_seeds': [], 'pair': True, 'table_cache': True})
    # modules with tables, rows and columns: what compile() writes vs what objects made for each module alone produce
    for cname, mname in (('full', 'FULL-MIB'), ('fullalt', 'FULL-MIB'), ('v1', 'OLD-MIB'), ('quirky', 'QUIRK-MIB')):
        for texts_ in (False, True):
            out.append({'ops': [{'op': 'compile', 'modules': {}, 'corpus': [cname], 'requested': [mname], 'codegen': 'json', 'options': {'genTexts': True} if texts_ else {}, 'solo': True}],
                        'child_hash_seeds': [], 'pair': True})
    # joint call vs each module on its own: a module that refines an enumerated type, users of that type in other modules
    for req in (['BBB-MIB', 'AAA-MIB'], ['AAA-MIB', 'BBB-MIB'], ['CCC-MIB', 'BBB-MIB', 'AAA-MIB']):
        specs = {'AAA-MIB': _fixed_spec('AAA-MIB', enumtc=True), 'BBB-MIB': _fixed_spec('BBB-MIB', arc=10, imports=['AAA-MIB'], enumuse='AAA-MIB'),
                 'CCC-MIB': _fixed_spec('CCC-MIB', arc=11, imports=['AAA-MIB'], enumuse='AAA-MIB', compliance=True)}
        for cg in ('json', 'pysnmp'):
            out.append({'ops': [{'op': 'compile', 'modules': _c.deepcopy(specs), 'requested': req, 'codegen': cg, 'options': {}, 'solo': True}], 'child_hash_seeds': [], 'pair': True})
    return out


def generate_fs(rng, tier):
    """a history of compile() calls on one compiler with real readers / searcher / borrowers / writer over the
    interposed filesystem, some under I/O faults, with source files changing in between; parse operations on the
    same parser object are mixed in"""
    from verif.engines import fs_history
    ops = fs_history.gen_history(rng, tier)
    if rng.random() < 0.4:
        pos = rng.randrange(len(ops))
        ops.insert(pos, {'op': 'parse', 'dialect': 'smiV1Relaxed', 'bad': rng.choice(sorted(hs.BAD_TEXTS))})
    return {'ops': ops, 'child_hash_seeds': sorted(rng.sample(PALETTE, rng.choice([0, 1, 1]))), 'child_fresh': False, 'listing_seed': rng.randrange(1 << 30)}


def generate(rng, tier):
    if rng.random() < 0.3:
        return generate_fs(rng, tier)
    ops = []
    n = rng.choice([3, 4, 5, 6, 8, 10])
    nfiles = 9
    for i in range(n):
        r = rng.random()
        if ops and r < 0.2:
            ops.append({'op': 'repeat', 'of': rng.randrange(len(ops))})
            if ops[ops[-1]['of']]['op'] == 'repeat':
                ops[-1]['of'] = ops[ops[-1]['of']]['of']
        elif r < 0.4:
            ops.append({'op': 'parse', 'dialect': rng.choice(hs.DIALECTS), 'bad': rng.choice(sorted(hs.BAD_TEXTS))})
        elif r < 0.6:
            ops.append({'op': 'parse', 'dialect': rng.choice(hs.DIALECTS), 'file': rng.randrange(nfiles)})
            t_ = rng.random()
            if t_ < 0.3:
                ops[-1]['tail'] = 'comment'
            elif t_ < 0.6:
                ops[-1]['tail'] = 'first-line'
        elif r < 0.66:
            ops.append({'op': 'read', 'name': rng.choice(['FOO-MIB', 'foo-mib', 'FOO', 'BAR', 'Bar-Mib']),
                        'omit': sorted(rng.sample(sorted(hs.READ_TREE), rng.choice([0, 0, 1, 2]))),
                        'ropts': rng.choice([{}, {}, {'fuzzyMatching': False}, {'lowcaseMatching': False}])})
        elif r < 0.92:
            ops.append(gen_compile_op(rng, tier))
        else:
            comps = [j for j, o in enumerate(ops) if o['op'] == 'compile' and o.get('codegen') == 'json']
            if comps:
                ops.append({'op': 'index', 'of': rng.choice(comps)})
            else:
                ops.append(gen_compile_op(rng, tier))
    # bias: share one dialect so that failures and successes hit the same parser object
    if rng.random() < 0.7:
        d = rng.choice(hs.DIALECTS)
        for o in ops:
            if o['op'] == 'parse':
                o['dialect'] = d
    return {'ops': ops, 'child_hash_seeds': sorted(rng.sample(PALETTE, 2)), 'child_fresh': rng.random() < 0.3, 'table_cache': rng.random() < 0.3}


def shrink(scn):
    if scn.get('table_cache'):
        s = copy.deepcopy(scn)
        s.pop('table_cache')
        yield s
    if len(scn.get('child_hash_seeds', [])) > 1:
        for s0 in scn['child_hash_seeds']:
            s = copy.deepcopy(scn)
            s['child_hash_seeds'] = [s0]
            yield s
    if scn.get('child_hash_seeds'):
        s = copy.deepcopy(scn)
        s['child_hash_seeds'] = []
        yield s
    ops = scn['ops']
    for i in range(len(ops)):
        if len(ops) <= 1:
            break
        s = copy.deepcopy(scn)
        del s['ops'][i]
        ok = True
        for o in s['ops']:
            if o['op'] in ('repeat', 'index'):
                if o['of'] == i:
                    ok = False
                elif o['of'] > i:
                    o['of'] -= 1
        if ok and all(o['op'] not in ('repeat', 'index') or o['of'] < j for j, o in enumerate(s['ops'])):
            yield s
    fsc = [i for i, o in enumerate(ops) if o['op'] == 'fsc']
    if fsc:
        from verif.engines import fs_history
        for i in fsc:
            for o2 in fs_history.shrink_op(ops[i]):
                s = copy.deepcopy(scn)
                s['ops'][i] = o2
                yield s
        for site2 in fs_history.shrink_site(ops[fsc[0]]['site']):
            s = copy.deepcopy(scn)
            for i in fsc:
                s['ops'][i]['site'] = copy.deepcopy(site2)
            yield s
    for i, o in enumerate(ops):
        if o['op'] == 'compile':
            for m in sorted(o['modules']):
                if len(o['modules']) > 1 and m not in o['requested']:
                    s = copy.deepcopy(scn)
                    del s['ops'][i]['modules'][m]
                    for sp in s['ops'][i]['modules'].values():
                        sp['imports'] = [x for x in sp['imports'] if x != m]
                        if sp.get('oidparent') == m:
                            sp['oidparent'] = None
                    yield s
            for k in sorted(o.get('options', {})):
                s = copy.deepcopy(scn)
                del s['ops'][i]['options'][k]
                yield s
            for m, sp in sorted(o['modules'].items()):
                for fld in ('fakeidx', 'compliance', 'smiv1', 'identity', 'enumtc', 'enumuse', 'oiddefval', 'dupobj'):
                    if sp.get(fld):
                        s = copy.deepcopy(scn)
                        s['ops'][i]['modules'][m][fld] = False
                        yield s
                if sp.get('variant', 'ok') != 'ok':
                    s = copy.deepcopy(scn)
                    s['ops'][i]['modules'][m]['variant'] = 'ok'
                    yield s
            if o.get('codegen') == 'pysnmp':
                s = copy.deepcopy(scn)
                s['ops'][i]['codegen'] = 'json'
                yield s
        if o['op'] == 'parse' and o.get('file') not in (None, 0):
            s = copy.deepcopy(scn)
            s['ops'][i]['file'] = 0
            yield s


def size(scn):
    return {'operations': len(scn['ops']), 'children': len(scn.get('child_hash_seeds', []))}


def describe(scn, out):
    d = copy.deepcopy({k: v for k, v in scn.items() if k != '_world'})
    for o in d['ops']:
        if o['op'] == 'compile':
            o['modules'] = {n: {k: v for k, v in sp.items() if k in ('imports', 'variant', 'fakeidx', 'smiv1', 'identity', 'revisions', 'enumtc', 'enumuse')} for n, sp in o.get('modules', {}).items()}
        if o['op'] == 'fsc':
            o['site'] = dict(o['site'], modules={n: {k: v for k, v in sp.items() if k in ('imports', 'variant')} for n, sp in o['site']['modules'].items()})
    return {'history': d, 'shape': out.get('shape')}
