"""C18 - the OID->module index covers every indexed OID and merges
monotonically.  fs-sim: histories of incremental index builds across
'process restarts' (only the index file survives), real JsonCodeGen.genIndex
+ MibCompiler.buildIndex + FileWriter, write faults on the index file and
corrupt old indexes.  Oracle = accumulated set model."""
import copy
import json
import os

from verif.engines import compile_sim as cs
from verif.gen import basemibs, mibgen
from verif.sim import core

PROPERTY = 'C18'
ENGINE = 'fs-sim'
ENV_VARIANTS = ['locale-C-ascii']
ENV_N = 120
LEVEL = 'exploration'
QUICK_S = 40
THOROUGH_S = 420
CHUNK = 50
REAL_COMPONENTS = ['pysmi.codegen.JsonCodeGen.genIndex', 'pysmi.compiler.MibCompiler.buildIndex', 'pysmi.writer.FileWriter (index file durable in the scratch tree)',
                   'MibCompiler.compile + parser + generators (share of builds: statuses come from real compile() runs)']
STUB_COMPONENTS = ['status maps built directly from generated OID sets (share of builds)', 'write faults on the index file', 'process restarts (fresh objects, surviving file)']
RULE = ('seeded histories of 2-6 index builds; status maps from (i) generated OID sets sharing decimal digit prefixes (4/48, 1/10/100), nested and overlapping subtrees owned by several modules, '
        'identity/enterprise/compliance OIDs, attribute-less statuses, and (ii) real compile() runs; write faults, dry runs, corrupt old index, repeated builds; '
        'distinct = distinct (history shape, fault kinds, digit-prefix pattern present, overlap pattern); non-trivial = >=2 builds or a fault')
ASSUMPTIONS = ['read faults on the old index are injected only as a probe, not judged (the statement does not quantify over them)']

DIGITS = [0, 1, 2, 4, 10, 11, 48, 100, 480, 4800]



def _meta_truth(sp, specs):
    """what the module text says about itself: its root is declared first, so the enterprise is the first seven arcs of
    the root; a MODULE-IDENTITY (SMIv2 only) makes the root the identity"""
    ro = mibgen.module_oid(sp, specs)
    if ro is None:
        return None
    rd_ = mibgen.dotted(ro)
    return {'enterprise': '.'.join(rd_.split('.')[:7]) if rd_.startswith('1.3.6.1.4.1.') else None,
            'identity': rd_ if sp.get('identity') and not sp.get('smiv1') else None}

def is_prefix(k, oid):
    return oid == k or oid.startswith(k + '.')


def gen_status_map(rng, modules):
    """-> {module: {'status':..., 'oids': [...], 'identity':..., 'enterprise':..., 'compliance': [...]}}"""
    out = {}
    roots = ['1.3.6.1.4.1.%d' % rng.choice(DIGITS) for _ in range(rng.choice([1, 2, 3]))] + ['1.3.6.1.2.1.%d' % rng.choice(DIGITS)]
    for m in modules:
        r = rng.random()
        if r < 0.2:
            out[m] = {'status': rng.choice(['untouched', 'failed', 'missing', 'unprocessed', 'borrowed'])}
            continue
        root = rng.choice(roots)
        if rng.random() < 0.4:
            root = root + '.%d' % rng.choice(DIGITS)
        oids = set()
        for _ in range(rng.choice([1, 2, 3, 5, 8])):
            o = root
            for _ in range(rng.choice([0, 1, 1, 2, 3])):
                o += '.%d' % rng.choice(DIGITS)
            oids.add(o)
        oids.add(root)
        oids = sorted(oids)
        st = {'status': 'compiled', 'oids': oids}
        if rng.random() < 0.7:
            st['identity'] = rng.choice(oids)
        if root.startswith('1.3.6.1.4.1.'):
            st['enterprise'] = '.'.join(root.split('.')[:7])
        if rng.random() < 0.5:
            st['compliance'] = sorted(rng.sample(oids, min(len(oids), rng.choice([1, 2]))))
        out[m] = st
    return out


def to_statuses(smap):
    import pysmi.compiler as pc
    consts = {'compiled': pc.statusCompiled, 'untouched': pc.statusUntouched, 'failed': pc.statusFailed, 'unprocessed': pc.statusUnprocessed,
              'missing': pc.statusMissing, 'borrowed': pc.statusBorrowed}
    out = {}
    for m in sorted(smap):
        s = smap[m]
        base = consts[s['status']]
        if s['status'] == 'compiled':
            out[m] = base.setOptions(oid=None, oids=set(s.get('oids', ())), identity=s.get('identity'), revision=None,
                                     enterprise=s.get('enterprise'), compliance=list(s.get('compliance', ())), path='x', file='x', alias=m)
        else:
            out[m] = base
    return out


SWEEP_SET = {'quick': 'one mibdump --build-index run with 60 product modules named on the command line that all hang below a common module named first; the same with --rebuild into a populated destination',
             'thorough': 'same'}


def sweep(tier):
    out = []
    for flags in ([], ['--rebuild']):
        specs = {'AAA-MIB': {'name': 'AAA-MIB', 'imports': [], 'oidparent': None, 'arc': 4242, 'identity': True, 'nobj': 1, 'arcs': [1], 'compliance': False, 'variant': 'ok'}}
        for i in range(59):
            n = 'P%02d-MIB' % i
            specs[n] = {'name': n, 'imports': ['AAA-MIB'], 'oidparent': 'AAA-MIB', 'arc': 100 + i, 'identity': i % 7 == 0, 'nobj': 1, 'arcs': [1], 'compliance': i % 11 == 0, 'variant': 'ok'}
        b = {'kind': 'mibdump', 'modules': specs, 'requested': ['AAA-MIB'] + sorted(n for n in specs if n != 'AAA-MIB'), 'flags': flags}
        builds = [b] if not flags else [dict(b, flags=[]), b]
        out.append({'builds': copy.deepcopy(builds), 'suffix': '.json'})
    return out


def generate(rng, tier):
    names = ['AAA-MIB', 'BBB-MIB', 'CCC-MIB', 'DDD-MIB', 'EEE-MIB']
    suffix = rng.choice(['', '.json', '.json'])
    builds = []
    for i in range(rng.choice([2, 2, 3, 3, 4, 5, 6])):
        r = rng.random()
        if builds and r < 0.2:
            b = {'kind': 'repeat', 'of': rng.randrange(len(builds))}
        elif r < 0.35:
            specs = mibgen.gen_modules(rng, rng.choice([1, 2, 3]), cycles=False, defects=0.0, compliance=0.5)
            b = {'kind': 'compile', 'modules': specs, 'requested': [sorted(specs)[-1]]}
            if rng.random() < 0.4:
                # a module that fails inside the code generator after registering most of its objects is
                # generated first; the others follow on the same generator object
                bad = sorted(specs)[0]
                specs[bad]['variant'] = 'latefail'
                specs[bad]['arcs'] = specs[bad]['arcs'] or [1, 2]
                specs[bad]['compliance'] = True
                for n2, sp2 in specs.items():
                    if n2 != bad:
                        sp2['imports'] = [x for x in sp2['imports'] if x != bad]
                        if sp2.get('oidparent') == bad:
                            sp2['oidparent'] = None
                b['requested'] = [bad] + [n2 for n2 in sorted(specs) if n2 != bad]
        elif r < 0.45 and suffix == '.json':
            specs = mibgen.gen_modules(rng, rng.choice([1, 2]), cycles=False, defects=0.0, compliance=0.5)
            fl = []
            for f_, p_ in (('--rebuild', .5), ('--ignore-errors', .3), ('--no-dependencies', .15), ('--generate-mib-texts', .2)):
                if rng.random() < p_:
                    fl.append(f_)
            b = {'kind': 'mibdump', 'modules': specs, 'requested': [sorted(specs)[-1]], 'flags': fl}
        else:
            b = {'kind': 'direct', 'map': gen_status_map(rng, rng.sample(names, rng.choice([1, 2, 3, 4])))}
        if rng.random() < 0.12 and b['kind'] != 'mibdump':
            b['dryRun'] = True
        if rng.random() < 0.15:
            b['ignoreErrors'] = True
        builds.append(b)
    scn = {'builds': builds, 'suffix': suffix}
    if rng.random() < 0.4:
        # two long-lived compilers sharing the destination instead of a fresh one per build
        scn['persistent'] = True
        for b in builds:
            b['who'] = rng.choice(['A', 'A', 'B'])
    r = rng.random()
    if r < 0.25 and any(b['kind'] != 'mibdump' for b in builds):
        k = rng.choice([j for j, b in enumerate(builds) if b['kind'] != 'mibdump'])
        scn['faults'] = [{'op': k, 'site': rng.choice(['mkstemp', 'os.write', 'os.close', 'os.rename', 'os.write', 'os.close', 'os.rename', 'file.write', 'file.close']), 'nth': 0,
                          'action': 'errno', 'arg': rng.choice(['EIO', 'ENOSPC', 'EACCES'])}]
        if rng.random() < 0.25:
            scn['faults'][0]['action'] = 'kill'      # not an error return: the process dies there
            scn['faults'][0]['arg'] = None
        elif rng.random() < 0.4:
            f2 = dict(scn['faults'][0])
            f2['nth'] = 1        # should the code retry the call, it fails again
            scn['faults'].append(f2)
    elif r < 0.33:
        scn['corrupt_before'] = rng.randrange(1, len(builds))
        scn['corrupt_kind'] = rng.choice(['garbage', 'truncated', 'empty-object'])
    elif r < 0.40:
        scn['rate'] = {'p': 0.1, 'seed': rng.randrange(1 << 30), 'sites': ['open', 'file.read'], 'actions': ['errno']}
    u = rng.random()
    if u < 0.12 and not scn.get('persistent') and not any(b_.get('kind') == 'mibdump' for b_ in builds):
        # the first build of the history finds an index left by earlier runs; in a few worlds a very large one
        scn['inherited'] = {'pad': 10500000 if u < 0.004 else rng.choice([0, 0, 100, 70000])}
        if u < 0.004:
            scn.pop('rate', None)
            scn.pop('faults', None)
            del builds[1:]
    return scn


def _provided(doc):
    """what an index document provides: set of (section, oid, module) + list of (key, module) for oids"""
    prov = set()
    for sec in ('identity', 'enterprise', 'compliance'):
        for oid, mods in (doc.get(sec) or {}).items():
            for m in mods:
                prov.add((sec, oid, m))
    cover = set()
    for k, mods in (doc.get('oids') or {}).items():
        for m in mods:
            cover.add((k, m))
    return prov, cover


def run(scn):
    from pysmi import error
    from pysmi.compiler import MibCompiler
    from pysmi.writer.localfile import FileWriter
    root = core.new_root('c18')
    viol = []

    def V(clause, msg, **facts):
        viol.append({'clause': clause, 'key': '%s|%s' % (clause, facts.get('what', '')), 'facts': facts, 'message': msg})
    try:
        dst = os.path.join(root, 'dst')
        with core.unhooked():
            os.makedirs(dst)
        idxfile = os.path.join(dst, 'index' + scn.get('suffix', ''))
        w = core.World(root=root, faults=scn.get('faults', ()), rate=scn.get('rate'))
        core.patch_pysmi()
        M = {}            # module -> {'oids': set, 'identity': set, 'enterprise': set, 'compliance': set}
        maps = []         # status maps per build (for repeats)
        prev_doc = None
        shapes = []
        digit_pat = False
        longlived = {}
        truths = {}         # build index -> {module: ground-truth OID set} (compile builds of generated modules)
        truth_metas = {}    # build index -> {module: ground-truth enterprise / identity OID}
        corrupt_active = False
        if scn.get('inherited'):
            # an index document left by earlier runs (of any size: the 'meta' section carries padding in some worlds)
            leg = {'compliance': {'1.3.6.1.4.1.424242.9.1': ['LEGACY-MIB']}, 'enterprise': {'1.3.6.1.4.1.424242': ['LEGACY-MIB']},
                   'identity': {'1.3.6.1.4.1.424242.9': ['LEGACY-MIB']}, 'meta': {'comments': ['inherited'], 'pad': 'x' * int(scn['inherited'].get('pad', 0))},
                   'oids': {'1.3.6.1.4.1.424242.9': ['LEGACY-MIB']}}
            with core.unhooked():
                with open(idxfile, 'w') as f:
                    json.dump(leg, f)
            prev_doc = leg
            M['LEGACY-MIB'] = {'oids': set(['1.3.6.1.4.1.424242.9']), 'identity': set(['1.3.6.1.4.1.424242.9']), 'enterprise': set(['1.3.6.1.4.1.424242']),
                               'compliance': set(['1.3.6.1.4.1.424242.9.1'])}
            w.probe('inherited-index' + ('-over-10MB' if scn['inherited'].get('pad', 0) > 10000000 else ''))
        with w:
            for i, b in enumerate(scn['builds']):
                w.begin_op(i, b['kind'])
                truth = {}
                truth_meta = {}
                if scn.get('corrupt_before') == i:
                    with core.unhooked():
                        if os.path.exists(idxfile):
                            data = open(idxfile).read()
                            kind = scn.get('corrupt_kind')
                            bad = {'garbage': 'this is { not json', 'truncated': data[:max(1, len(data) // 2)], 'empty-object': '{}'}[kind]
                            with open(idxfile, 'w') as f:
                                f.write(bad)
                            if kind == 'empty-object':
                                M = {}
                                prev_doc = {}
                            else:
                                corrupt_active = True
                # 'process restart': fresh compiler, generator, writer -- or one of two long-lived compilers
                if scn.get('persistent') and b.get('who') in longlived:
                    comp = longlived[b['who']]
                else:
                    writer = FileWriter(dst).setOptions(suffix=scn.get('suffix', ''))
                    comp = MibCompiler(cs.get_parser(), cs.new_codegen('json'), writer)
                    if scn.get('persistent'):
                        longlived[b.get('who', 'A')] = comp
                        comp._verif_sources = False
                if b['kind'] == 'repeat':
                    src = scn['builds'][b['of']]
                    statuses = maps[b['of']]
                    truth = truths.get(b['of'], {})
                    truth_meta = truth_metas.get(b['of'], {})
                elif b['kind'] == 'direct':
                    statuses = to_statuses(b['map'])
                elif b['kind'] == 'mibdump':
                    statuses = None     # produced by the script itself, see below
                else:
                    specs = b['modules']
                    texts = dict(basemibs.BASE)
                    for n, sp in specs.items():
                        texts[n] = mibgen.render(sp, specs)
                    from pysmi.reader.callback import CallbackReader
                    comp._sources[:] = [CallbackReader(lambda n, c, texts=texts: texts.get(n))]
                    for n, sp in specs.items():
                        if sp.get('variant', 'ok') == 'ok':
                            truth[n] = set(mibgen.dotted(o) for o in mibgen.defined_oids(sp, specs))
                            if _meta_truth(sp, specs):
                                truth_meta[n] = _meta_truth(sp, specs)
                    truths[i] = truth
                    truth_metas[i] = truth_meta
                    try:
                        statuses = comp.compile(*b['requested'], **{'writeMibs': False, 'ignoreErrors': True})
                    except BaseException as e:  # noqa
                        if isinstance(e, (core.StepBudget, core.WorldTimeout)):
                            raise
                        statuses = {}
                        w.probe('compile-raised-in-c18')
                before = core.read_bytes(idxfile)
                dst_before = core.snapshot(dst, with_mtime=True) if b['kind'] == 'mibdump' else None
                fired_before = len(w.fired_list)
                try:
                    if b['kind'] == 'mibdump':
                        # the index is built by scripts/mibdump.py --build-index run in-process over generated files
                        from verif.checks import c20
                        specs = b['modules']
                        srcd = os.path.join(root, 'src%d' % i)
                        with core.unhooked():
                            os.makedirs(srcd)
                            os.makedirs(os.path.join(root, 'noborrow'), exist_ok=True)
                            for n, txt in basemibs.ALL_BASE.items():
                                with open(os.path.join(srcd, n), 'w') as f:
                                    f.write(txt)
                            for n, sp in specs.items():
                                with open(os.path.join(srcd, n), 'w') as f:
                                    f.write(mibgen.render(sp, specs))
                            for n in os.listdir(srcd):
                                os.utime(os.path.join(srcd, n), (core.EPOCH0 - 5000, core.EPOCH0 - 5000))     # older than anything this history writes
                        for n, sp in specs.items():
                            if sp.get('variant', 'ok') == 'ok':
                                truth[n] = set(mibgen.dotted(o) for o in mibgen.defined_oids(sp, specs))
                                if _meta_truth(sp, specs):
                                    truth_meta[n] = _meta_truth(sp, specs)
                        truths[i] = truth
                        truth_metas[i] = truth_meta
                        argv = ['--mib-source=file://' + srcd, '--mib-borrower=' + os.path.join(root, 'noborrow'), '--mib-searcher=nosuchpkg_sim',
                                '--destination-directory=' + dst, '--destination-format=json', '--build-index', '--mib-stub=NONE-MIB'] + list(b.get('flags', [])) + list(b['requested'])
                        capt = c20._Capture()
                        code, errtxt = c20.run_script(c20.MIBDUMP, argv, w, capt)
                        statuses = capt.maps[-1] if capt.maps else {}
                        if isinstance(code, str):
                            raise RuntimeError('mibdump died: %s' % code)
                        if code not in (0, 79):
                            raise error.PySmiError('mibdump exit %s' % code)
                    else:
                        comp.buildIndex(statuses, dryRun=b.get('dryRun', False), ignoreErrors=b.get('ignoreErrors', False))
                    res = 'ok'
                except error.PySmiError as e:
                    res = 'pkgerror:%s' % type(e).__name__
                except core.SimKill:
                    res = 'killed'
                except BaseException as e:  # noqa
                    if isinstance(e, (core.StepBudget, core.WorldTimeout)):
                        raise
                    res = 'foreign:%s' % type(e).__name__
                w.end_op(res)
                maps.append(statuses if statuses is not None else {})
                after = core.read_bytes(idxfile)
                if res == 'killed':
                    # the process died inside the build (before the new document was renamed into place): the next build is a new
                    # process and finds the earlier index exactly as it was
                    w.probe('process-killed-inside-index-build')
                    longlived.clear()
                    shapes.append((b['kind'], 'killed', bool(b.get('dryRun')), True))
                    if after != before:
                        V('C18.6-failed-write', 'index file changed although the process was killed before the new document was in place', what='changed-after-kill')
                        break
                    continue
                faulted = len(w.fired_list) > fired_before
                write_fault = any(f['site'] in ('mkstemp', 'os.write', 'os.close', 'os.rename', 'file.write', 'file.close') for f in w.fired_list[fired_before:])
                read_fault = faulted and not write_fault
                corrupt_now = corrupt_active
                shapes.append((b['kind'], res.split(':')[0], bool(b.get('dryRun')), faulted))
                if res.startswith('foreign'):
                    V('C18.0-package-error', 'buildIndex raised %s (build %d)' % (res, i), what='foreign', exception=res[8:], faulted=faulted, corrupt=corrupt_now)
                    break
                if b.get('dryRun'):
                    if after != before:
                        V('C18.6-dryrun', 'dry-run index build changed the index file', what='dryrun')
                    if corrupt_now:
                        break
                    continue
                if b['kind'] == 'mibdump' and faulted:
                    # the fault may have hit a module file rather than the index: not judged, model resynchronised below
                    read_fault, write_fault = True, False
                if write_fault or corrupt_now:
                    # 6. failed write / unparseable old index: file bytes unchanged, package error unless ignored
                    if after != before:
                        V('C18.6-failed-write', 'index file changed although the build failed (%s)' % ('write fault' if write_fault else 'corrupt old index'),
                          what='changed-after-failure', corrupt=corrupt_now)
                    if res == 'ok' and not (b.get('ignoreErrors') or '--ignore-errors' in b.get('flags', [])):
                        V('C18.6-failed-write', 'index build reported success although %s' % ('the write failed' if write_fault else 'the old index is unparseable'),
                          what='silent-failure', corrupt=corrupt_now)
                    if corrupt_now:
                        break   # the history cannot go on past a corrupt index
                    continue
                if read_fault:
                    w.probe('old-index-read-fault')
                    # not judged; resynchronise the model with whatever is on disk now
                    try:
                        prev_doc = json.loads(after.decode()) if after else None
                    except ValueError:
                        prev_doc = None
                    M = {}
                    if prev_doc:
                        for sec in ('identity', 'enterprise', 'compliance'):
                            for oid, mods in (prev_doc.get(sec) or {}).items():
                                for m in mods:
                                    M.setdefault(m, {'oids': set(), 'identity': set(), 'enterprise': set(), 'compliance': set()})[sec].add(oid)
                        for k, mods in (prev_doc.get('oids') or {}).items():
                            for m in mods:
                                M.setdefault(m, {'oids': set(), 'identity': set(), 'enterprise': set(), 'compliance': set()})['oids'].add(k)
                    continue
                if res != 'ok':
                    V('C18.0-package-error', 'fault-free index build failed with %s (build %d)' % (res, i), what='spurious-error')
                    break
                # update the model
                if b['kind'] == 'mibdump' and dst_before is not None:
                    # ground truth that does not depend on what the script did with its status maps: a healthy module whose
                    # file this very run (re)wrote was compiled in it, so the index this run built lists it
                    dst_after = core.snapshot(dst, with_mtime=True)
                    for n in sorted(truth):
                        fn_ = n + scn.get('suffix', '.json')
                        if fn_ in dst_after and dst_after.get(fn_) != dst_before.get(fn_):
                            e = M.setdefault(n, {'oids': set(), 'identity': set(), 'enterprise': set(), 'compliance': set()})
                            e['oids'].update(truth[n])
                            if n in truth_meta:
                                if truth_meta[n].get('identity'):
                                    e['identity'].add(truth_meta[n]['identity'])
                                if truth_meta[n].get('enterprise'):
                                    e['enterprise'].add(truth_meta[n]['enterprise'])
                            w.probe('mibdump-wrote-module:indexed-by-ground-truth')
                for m, st in statuses.items():
                    oids = getattr(st, 'oids', None) or ()
                    ident = getattr(st, 'identity', None)
                    ent = getattr(st, 'enterprise', None)
                    compl = getattr(st, 'compliance', None) or ()
                    if not (oids or ident or ent or compl):
                        continue
                    e = M.setdefault(m, {'oids': set(), 'identity': set(), 'enterprise': set(), 'compliance': set()})
                    if m in truth:
                        # what the module text defines, not what the generator claims
                        e['oids'].update(truth[m])
                        extra = sorted(set(oids) - truth[m])
                        if extra:
                            V('C18.3-only-own', 'compile() reports OIDs %s for module %s which its text does not define' % (extra[:3], m), what='status-foreign-oid')
                        continue_compl = [c for c in compl if c in truth[m]]
                        if len(continue_compl) != len(list(compl)):
                            V('C18.3-only-own', 'compile() reports compliance OIDs %s for module %s which its text does not define' % (sorted(set(compl) - truth[m])[:3], m), what='status-foreign-compliance')
                    else:
                        e['oids'].update(oids)
                    if m in truth and m in truth_meta:
                        ident, ent = truth_meta[m]['identity'], truth_meta[m]['enterprise']
                    if ident:
                        e['identity'].add(ident)
                    if ent:
                        e['enterprise'].add(ent)
                    e['compliance'].update(c for c in compl if m not in truth or c in truth[m])
                try:
                    doc = json.loads(after.decode())
                except Exception:
                    V('C18.0-package-error', 'index file is not valid JSON after a successful build', what='not-json')
                    break
                prov, cover = _provided(doc)
                keys = doc.get('oids') or {}
                for m, e in sorted(M.items()):
                    for sec in ('identity', 'enterprise', 'compliance'):
                        for oid in sorted(e[sec]):
                            if (sec, oid, m) not in prov:
                                V('C18.1-listed', 'module %s is not listed under its %s OID %s' % (m, sec, oid), what='missing-' + sec)
                    for oid in sorted(e['oids']):
                        if not any(is_prefix(k, oid) and m in keys[k] for k in keys):
                            near = [k for k in keys if oid.startswith(k) and m in keys[k]]
                            if near:
                                digit_pat = True
                            V('C18.2-cover', 'OID %s of module %s is not covered by any component-wise prefix entry naming %s%s' % (
                                oid, m, m, ' (only by the string prefix %s)' % near[0] if near else ''), what='uncovered-string-prefix' if near else 'uncovered',
                              string_prefix=bool(near))
                for k, mods in sorted(keys.items()):
                    for m in mods:
                        if m not in M or k not in M[m]['oids']:
                            V('C18.3-only-own', 'module %s is listed under OID %s which it does not define' % (m, k), what='foreign-oid')
                if prev_doc is not None:
                    pprov, pcover = _provided(prev_doc)
                    for item in sorted(pprov - prov):
                        V('C18.4-monotone', 'entry %s of the earlier index was lost' % (item,), what='lost-entry')
                    for (k, m) in sorted(pcover):
                        if not any(is_prefix(k2, k) and m in keys[k2] for k2 in keys):
                            V('C18.4-monotone', 'earlier index covered %s for %s, the new one does not' % (k, m), what='lost-cover')
                # 5. re-indexing the same results changes nothing
                comp2 = MibCompiler(cs.get_parser(), cs.new_codegen('json'), FileWriter(dst).setOptions(suffix=scn.get('suffix', '')))
                w.begin_op(i, 'reindex')
                saved_rate, w.rate = w.rate, None    # the re-index probe is the oracle's, not the scenario's
                saved_faults, w.faults = w.faults, []
                try:
                    comp2.buildIndex(statuses)
                    again = core.read_bytes(idxfile)
                    d2 = json.loads(again.decode())
                    a, b2 = dict(doc), dict(d2)
                    a.pop('meta', None)
                    b2.pop('meta', None)
                    if a != b2:
                        V('C18.5-idempotent', 're-indexing the same results changed the index document', what='reindex-changed')
                    doc = d2
                except error.PySmiError:
                    if not w.fired_list[fired_before:]:
                        V('C18.5-idempotent', 're-indexing the same results failed', what='reindex-failed')
                except BaseException as e:  # noqa
                    if isinstance(e, (core.StepBudget, core.WorldTimeout)):
                        raise
                    V('C18.0-package-error', 're-indexing raised %s' % type(e).__name__, what='foreign-reindex')
                w.rate = saved_rate
                w.faults = saved_faults
                w.end_op()
                prev_doc = doc
        alloids = sorted(set(o for e in M.values() for o in e['oids']))
        for a in alloids:
            for b3 in alloids:
                if a != b3 and b3.startswith(a) and not is_prefix(a, b3) and a.count('.') == b3.count('.'):
                    digit_pat = True
        overlap = any(M[m1]['oids'] & M[m2]['oids'] for m1 in M for m2 in M if m1 < m2)
        fp, fph = w.fingerprints(extra=[shapes, sorted(alloids)])
        probes = dict(w.probes)
        if digit_pat:
            probes['sibling-arcs-sharing-decimal-digits'] = 1
        if overlap:
            probes['oid-shared-by-several-modules'] = 1
        return {'violations': viol, 'sig': json.dumps([shapes, sorted(w.fired), digit_pat, overlap, scn.get('corrupt_kind')]),
                'nontrivial': len(scn['builds']) >= 2 or bool(w.fired), 'events': len(w.log), 'sim_s': 0, 'fired': dict(w.fired), 'probes': probes,
                'fp': fp, 'fph': fph, 'comps': {'buildIndex(real)': len(shapes), 'genIndex(real)': len(shapes)}, 'shapes': shapes}
    finally:
        cs.get_parser()
        core.drop_root(root)


def shrink(scn):
    if scn.get('persistent'):
        s = copy.deepcopy(scn)
        s.pop('persistent')
        yield s
    for k in ('faults', 'rate', 'corrupt_before', 'inherited'):
        if k in scn:
            s = copy.deepcopy(scn)
            s.pop(k)
            s.pop('corrupt_kind', None) if k == 'corrupt_before' else None
            yield s
    for i in range(len(scn['builds'])):
        if len(scn['builds']) > 1:
            s = copy.deepcopy(scn)
            del s['builds'][i]
            ok = True
            for b in s['builds']:
                if b['kind'] == 'repeat':
                    if b['of'] == i:
                        ok = False
                    elif b['of'] > i:
                        b['of'] -= 1
            for f in s.get('faults', []):
                if f.get('op') is not None and f['op'] >= len(s['builds']):
                    ok = False
            if 'corrupt_before' in s and s['corrupt_before'] >= len(s['builds']):
                ok = False
            if ok and all(b['kind'] != 'repeat' or b['of'] < j for j, b in enumerate(s['builds'])):
                yield s
    for i, b in enumerate(scn['builds']):
        if b['kind'] == 'direct':
            for m in sorted(b['map']):
                if len(b['map']) > 1:
                    s = copy.deepcopy(scn)
                    del s['builds'][i]['map'][m]
                    yield s
            for m, st in sorted(b['map'].items()):
                for j in range(len(st.get('oids', []))):
                    if len(st['oids']) > 1:
                        s = copy.deepcopy(scn)
                        o = s['builds'][i]['map'][m]['oids'].pop(j)
                        st2 = s['builds'][i]['map'][m]
                        if st2.get('identity') == o:
                            st2.pop('identity')
                        if o in st2.get('compliance', []):
                            st2['compliance'].remove(o)
                        yield s
                for fld in ('identity', 'enterprise', 'compliance'):
                    if fld in st:
                        s = copy.deepcopy(scn)
                        s['builds'][i]['map'][m].pop(fld)
                        yield s
        for fld in ('dryRun', 'ignoreErrors'):
            if b.get(fld):
                s = copy.deepcopy(scn)
                s['builds'][i].pop(fld)
                yield s


def size(scn):
    return {'builds': len(scn['builds']), 'faults': len(scn.get('faults', []))}


def describe(scn, out):
    d = copy.deepcopy({k: v for k, v in scn.items() if k != '_world'})
    for b in d['builds']:
        if b['kind'] in ('compile', 'mibdump'):
            b['modules'] = sorted(b['modules'])
    return {'scenario': d, 'shapes': out.get('shapes'), 'faults_fired': out.get('fired')}
