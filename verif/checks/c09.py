"""C09 - nothing is written when any module fails, unless errors are ignored.

compile-sim.  Sweep: every labelled import digraph over k non-base modules
reachable from module 0 x every module x every failure stage x ignoreErrors
x with/without a borrower able to supply the failing module.  Seeded: several
simultaneous failures in larger random graphs.  The failure set F and the
built set B are read from the recorded component outcomes, never from R."""
import itertools

from verif.engines import compile_sim as cs
from verif.gen import basemibs, mibgen
from verif.sim import core

PROPERTY = 'C09'
ENGINE = 'compile-sim'
LEVEL = 'fault_enumeration'
QUICK_S = 40
THOROUGH_S = 420
CHUNK = 40
REAL_COMPONENTS = ['pysmi.compiler.MibCompiler.compile', 'parser', 'SymtableCodeGen', 'JsonCodeGen', 'AnyFileBorrower', 'real-filesystem worlds (about 15 %): FileReader (plain, with .index), ZipReader, HttpReader (behind a simulated web server), AnyFileSearcher, StubSearcher, AnyFileBorrower, FileWriter - tapped in place', 'CallbackReader sources sharing one look-up function and real StubSearcher objects in a share of the simulated worlds']
STUB_COMPONENTS = ['sources', 'searchers', 'borrower readers', 'writer', 'injected package errors', 'web server + network of HTTP sources (simulated at urlopen: refuse / 404 / 500 / cut body / no Last-Modified)', 'errno and short-write outcomes of os.* calls in real-filesystem worlds (seeded rate)']
RULE = ('sweep: all labelled import digraphs (self imports allowed) over k<=2 (quick) / k<=3 (thorough) modules reachable from the requested module 0 '
        'x failing module x failure stage {missing, reader error, lexical, syntax, truncated, empty file, duplicate symbol, unknown parent, bad reference, '
        'OID cycle, injected parser/symbol-table/generator error} x ignoreErrors x borrower yes/no; seeded: random graphs with several failures. '
        'distinct = distinct (status multiset, options, fault kinds, component counts, stage); non-trivial = every sweep world (one planted failure) and seeded worlds with a fault or >=2 modules')
ASSUMPTIONS = ['a file with a module that fails the symbol-table stage is refused as a whole: the failure is that of the name the file was fetched as']
SWEEP_SET = {'quick': 'digraphs k<=2 x module x 14 failure stages x ignoreErrors x borrower', 'thorough': 'digraphs k<=3 x module x 14 failure stages x ignoreErrors x borrower'}

STAGES = ['missing', 'reader-error', 'lex', 'syntax', 'cut', 'empty', 'dupsym', 'unkparent', 'augunk', 'badref', 'oidcycle',
          'inj-parser', 'inj-symtab', 'inj-codegen']


def digraphs(k):
    pairs = [(i, j) for i in range(k) for j in range(k)]
    for bits in range(1 << len(pairs)):
        edges = [p for b, p in enumerate(pairs) if bits >> b & 1]
        reach = {0}
        todo = [0]
        while todo:
            x = todo.pop()
            for (a, b) in edges:
                if a == x and b not in reach:
                    reach.add(b)
                    todo.append(b)
        if len(reach) == k:
            yield edges


def graph_world(k, edges, victim, stage, ignore, borrower):
    names = mibgen.NAME_POOL[:k]
    specs = {}
    for i, n in enumerate(names):
        imps = [names[j] for (a, j) in edges if a == i]
        lower = [names[j] for (a, j) in edges if a == i and j < i]
        specs[n] = {'name': n, 'imports': imps, 'oidparent': lower[0] if lower else None, 'arc': 10 + i, 'identity': i % 2 == 0,
                    'nobj': 1, 'arcs': [1], 'compliance': False, 'variant': 'ok'}
    scn = {'modules': specs, 'files': {}, 'requested': [names[0]], 'codegen': 'json', 'searchers': [], 'borrowers': [],
           'options': {'ignoreErrors': True} if ignore else {}, 'planned_failure': names[victim], 'stage': stage}
    src = {'holds': {n: {'o': 'ok'} for n in names}, 'base': 'all', 'mtime': core.EPOCH0}
    v = names[victim]
    if stage == 'missing':
        del src['holds'][v]
    elif stage == 'reader-error':
        src['holds'][v] = {'o': 'error'}
    elif stage.startswith('inj-'):
        site = {'inj-parser': 'parser.parse', 'inj-symtab': 'symtab.genCode', 'inj-codegen': 'codegen.genCode'}[stage]
        scn['inject'] = [{'site': site, 'mib': v, 'nth': -1, 'cls': cs.SITE_ERR[site][0]}]
    else:
        specs[v]['variant'] = stage
    scn['sources'] = [src]
    if borrower:
        scn['borrowers'] = [{'genTexts': False, 'holds': {v: 'ok'}, 'mtime': core.EPOCH0}]
    return scn


def sweep(tier):
    kmax = 2 if tier == 'quick' else 3
    out = []
    for k in range(1, kmax + 1):
        for edges in digraphs(k):
            for victim in range(k):
                for stage in STAGES:
                    for ignore in (False, True):
                        for borrower in (False, True):
                            out.append(graph_world(k, edges, victim, stage, ignore, borrower))
    # a file that carries two modules, the one it is named after broken in a way that stops loading (first or last in the
    # file), next to a healthy module requested in the same call
    for v in ('cut', 'cutmacro', 'syntax', 'lex', 'dupsym', 'unkparent'):
        for order in (['AAA-MIB', 'BBB-MIB'], ['BBB-MIB', 'AAA-MIB']):
            for ignore in (False, True):
                specs = {}
                for i_, n_ in enumerate(('AAA-MIB', 'BBB-MIB', 'CCC-MIB')):
                    specs[n_] = {'name': n_, 'imports': [], 'oidparent': None, 'arc': 100 + i_, 'identity': False, 'nobj': 1, 'arcs': [1], 'compliance': False, 'variant': 'ok'}
                out.append({'modules': specs, 'codegen': 'json', 'files': {'BBB-MIB': list(order)}, 'co_only': ['AAA-MIB'], 'requested': ['CCC-MIB', 'BBB-MIB'],
                            'sources': [{'holds': {'BBB-MIB': {'o': 'ok', 'variants': {'BBB-MIB': v}}, 'CCC-MIB': {'o': 'ok'}}, 'base': 'all', 'mtime': core.EPOCH0 - 50}],
                            'searchers': [], 'borrowers': [], 'options': {'ignoreErrors': True} if ignore else {}, 'stage': 'bundled-' + v})
    # one long-lived compiler, two calls: between them a dependency is replaced by a release that renamed its root node
    # (same file time), while the module that hangs its objects below that node is unchanged
    for ignore in (False, True):
        for rebuild in (False, True):
            for req2 in (['AAA-MIB'], ['AAA-MIB', 'BBB-MIB'], ['CCC-MIB']):
                specs = {}
                for i_, n_ in enumerate(('AAA-MIB', 'BBB-MIB', 'CCC-MIB')):
                    specs[n_] = {'name': n_, 'imports': [], 'oidparent': None, 'arc': 100 + i_, 'identity': i_ == 1, 'nobj': 1, 'arcs': [1], 'compliance': False, 'variant': 'ok'}
                specs['AAA-MIB'].update(imports=['BBB-MIB'], oidparent='BBB-MIB')
                specs['CCC-MIB'].update(imports=['AAA-MIB', 'BBB-MIB'], oidparent='AAA-MIB')
                o2 = {}
                if ignore:
                    o2['ignoreErrors'] = True
                if rebuild:
                    o2['rebuild'] = True
                out.append({'modules': specs, 'codegen': 'json', 'files': {}, 'requested': ['CCC-MIB'], 'searchers': [], 'borrowers': [], 'options': {},
                            'sources': [{'holds': {n_: {'o': 'ok'} for n_ in specs}, 'base': 'all', 'mtime': core.EPOCH0 - 50}], 'stage': 'dependency-renamed-its-root-between-calls',
                            'second': {'requested': req2, 'options': o2, 'gain': {}, 'lose': {}, 'respec': {'BBB-MIB': {'rootname': 'bbbMibTrunk'}}}})
    return out


def failure_sets(t):
    """F (could not be found / parsed / generated, not borrowed) and B (built) from H."""
    fetch_ok = set()
    fetch_tried = set()
    cur = {}
    # a lookup is successful when some source attempt got through getData, parse and every symtab call
    attempts = []
    for c in t.calls:
        if c.site == 'src.getData':
            attempts.append({'name': c.mib, 'ok': c.ok, 'mods': []})
            fetch_tried.add(c.mib)
        elif c.site == 'parser.parse' and attempts:
            attempts[-1]['ok'] = attempts[-1]['ok'] and c.ok and bool(c.res)
        elif c.site == 'symtab.genCode' and attempts:
            attempts[-1]['ok'] = attempts[-1]['ok'] and c.ok
            if c.ok:
                attempts[-1]['mods'].append(c.mib)
    for a in attempts:
        if a['ok']:
            fetch_ok.add(a['name'])
            fetch_ok.update(a['mods'])
    implicit = set()
    t.implicit_failures = implicit
    # names that were needed but for which there is no source at all
    gen_fail = set(c.mib for c in t.by('codegen.genCode') if not c.ok)
    gen_ok = set(c.mib for c in t.by('codegen.genCode') if c.ok)
    borrowed = set(c.mib for c in t.by('borrower.getData') if c.ok)
    F = ((fetch_tried - fetch_ok) | gen_fail) - borrowed
    fresh = set()
    for c in t.by('searcher.fileExists'):
        if c.exc is not None and type(c.exc).__name__ == 'PySmiFileNotModifiedError':
            fresh.add(c.mib)
    B = set(gen_ok) | (borrowed - fresh)
    return F, B, fresh


def judge(t):
    viol = []
    scn = t.scn
    R = t.R
    opts = scn.get('options', {})

    def V(clause, msg, **facts):
        viol.append({'clause': clause, 'key': '%s|%s' % (clause, facts.get('what', '')), 'facts': facts, 'message': msg})

    if t.escaped is not None or not isinstance(R, dict):
        # containment is C07's business; C09 cannot be judged on this world
        t.world.probe('not-judged:compile-raised')
        if isinstance(t.escaped, core.StepBudget):
            V('C09.0-finished', 'compile() did not finish within the event budget', what='budget')
        elif t.escaped is not None and opts.get('ignoreErrors') and opts.get('writeMibs', True):
            # "when errors are ignored, every module that was built is written": a call that dies on one module's problem
            # leaves the modules it had already built unwritten
            built = sorted(set(c.mib for c in t.by('codegen.genCode') if c.ok))
            stored = set(c.mib for c in t.by('writer.putData') if c.ok)
            lost = [m for m in built if m not in stored]
            if lost:
                V('C09.2-ignore-errors', 'compile(ignoreErrors) was aborted by %s; built modules %s were never written' % (type(t.escaped).__name__, lost),
                  what='aborted-with-built-modules', exception=type(t.escaped).__name__)
        return viol
    F, B, fresh = failure_sets(t)
    cores = set()      # (D18 is repaired: no name is exempt any more)
    # ground truth: a module named in the IMPORTS text of a processed module that no source holds (and no borrower
    # supplied) is a failure even if the compiler never asked for it
    from verif.gen import mibgen as _mg
    held = set()
    for s_ in scn.get('sources', ()):
        held.update(k for k, h in s_.get('holds', {}).items() if h.get('o', 'ok') in ('ok', 'error'))
        b_ = s_.get('base', 'all')
        held.update(basemibs.ALL_BASE if b_ == 'all' else (b_ if isinstance(b_, list) else ()))
    for ms in scn.get('files', {}).values():
        held.update(ms)
    supplied_b = set(c.mib for c in t.by('borrower.getData') if c.ok)
    for (mname_, _x, _y) in [m for a_ in cs.attempts_of(t) if a_['ok'] for m in a_['mods']]:
        sp = scn.get('modules', {}).get(mname_)
        if sp is not None and not scn.get('alias'):
            for d in _mg.declared_imports(sp):
                if d not in held and d not in supplied_b and d not in F:
                    F.add(d)
                    t.world.probe('failure-known-from-ground-truth-only')
    # ground truth: a module that was looked up and of which every copy any source holds is broken in a way that stops
    # parsing or symbol-table building cannot have been loaded - whatever the parser made of the text
    UNLOADABLE = ('lex', 'lexpct', 'syntax', 'forbidden', 'cut', 'cutmacro', 'empty', 'dupsym', 'dupsymfwd', 'unkparent', 'augunk')
    looked_up = set(c.mib for c in t.by('src.getData')) | set(scn.get('requested', ()))
    if not scn.get('alias') and not scn.get('second') and t.second is None:
        for n_ in sorted(looked_up):
            sp = scn.get('modules', {}).get(n_)
            if sp is None or n_ in supplied_b or n_ in F:
                continue
            if any(n_ in ms and f_ != n_ for f_, ms in scn.get('files', {}).items()):
                continue        # may also arrive inside another module's file
            copies = [h_ for s_ in scn.get('sources', ()) for k_, h_ in s_.get('holds', {}).items() if k_ == n_ and h_.get('o', 'ok') == 'ok' and 'text' not in h_]
            # (in a file that also holds other modules an 'empty' copy just means the module is not in that file)
            bad_ = tuple(v_ for v_ in UNLOADABLE if not (v_ == 'empty' and len(scn.get('files', {}).get(n_, ())) > 1))
            if copies and all(((h_.get('variants') or {}).get(n_) or sp.get('variant', 'ok')) in bad_ for h_ in copies):
                F.add(n_)
                t.world.probe('failure-known-from-ground-truth-only')
    # ground truth: a module that hangs its objects below a node it imports from a module which (in the release the
    # sources hold now) does not define that node cannot be generated - whatever the generator object remembers from
    # earlier calls
    if not scn.get('alias') and not scn.get('files') and not scn.get('inject') and not scn.get('template') and scn.get('codegen', 'json') != 'null':
        # (the null generator of --destination-format=null resolves nothing and therefore cannot fail)
        specs_ = scn.get('modules', {})
        plain = lambda n_: all('variants' not in h_ and 'text' not in h_ for s_ in scn.get('sources', ()) for k_, h_ in s_.get('holds', {}).items() if k_ == n_)
        parsed_now = set(m for a_ in cs.attempts_of(t) if a_['ok'] for (m, _x, _y) in a_['mods'])
        for m_, sp in sorted(specs_.items()):
            d_ = sp.get('oidparent')
            if d_ and d_ != m_ and specs_.get(d_, {}).get('rootname') and sp.get('variant', 'ok') == 'ok' and plain(m_) and plain(d_) \
                    and m_ in parsed_now and d_ in parsed_now and m_ not in supplied_b and m_ not in F:
                if str(R.get(m_)) == 'compiled' or any(c.mib == m_ for c in t.by('writer.putData')):
                    F.add(m_)
                    t.world.probe('failure-known-from-ground-truth-only')
                    t.world.probe('stale-importer-of-a-renamed-node')
    # ground truth: only a borrower of the requested flavour can make a failure go away
    want_texts = bool(opts.get('genTexts'))
    for c in t.by('borrower.getData'):
        if c.ok and isinstance(c.comp, int) and c.comp < len(scn.get('borrowers', ())) and bool(scn['borrowers'][c.comp].get('genTexts')) != want_texts:
            if not any(c2.ok and c2.mib == c.mib and bool(scn['borrowers'][c2.comp].get('genTexts')) == want_texts for c2 in t.by('borrower.getData') if isinstance(c2.comp, int) and c2.comp < len(scn['borrowers'])):
                F.add(c.mib)
                t.world.probe('failure-known-from-ground-truth-only')
    if 'NO-SUCH-MIB' in scn.get('requested', ()) and not any(c.mib == 'NO-SUCH-MIB' and c.ok for c in t.by('borrower.getData')):
        F.add('NO-SUCH-MIB')
    if not scn.get('sources'):
        F.update(scn['requested'])
    noDeps = opts.get('noDeps')
    if noDeps:
        # dependencies are never generated under noDeps; B (from H) already reflects that
        pass
    # ground truth: a healthy module whose dependencies are all healthy is generated when the generator is asked for it -
    # another module's failure earlier in the call does not spread to it
    mb = cs.must_build(scn)
    if mb and not t.world.fired:
        for c in t.by('codegen.genCode'):
            if c.mib in mb and not c.ok:
                V('C09.2-ignore-errors', 'healthy module %s (all its dependencies healthy and available) failed in code generation: %s' % (c.mib, c.exc),
                  what='healthy-module-failed', after_failures=sorted(x.mib for x in t.by('codegen.genCode') if not x.ok and x.seq < c.seq))
    puts = t.by('writer.putData')
    okput = {}
    for c in puts:
        if c.ok:
            okput[c.mib] = okput.get(c.mib, 0) + 1
    ignore = bool(opts.get('ignoreErrors'))
    writing = opts.get('writeMibs', True)
    planned = scn.get('planned_failure')
    if planned is not None:
        if planned in F:
            t.world.probe('planned-failure-effective')
        elif any(c.ok and c.mib == planned for c in t.by('borrower.getData')):
            t.world.probe('planned-failure-borrowed-so-not-a-failure')
        else:
            t.world.probe('vacuous:planned-failure-not-in-F')
    if F and not ignore:
        if puts:
            V('C09.1-nothing-written', 'modules %s failed, errors not ignored, yet the writer was called for %s' % (sorted(F), sorted(set(c.mib for c in puts))),
              what='written-despite-failure', stage=scn.get('stage'))
        for b in sorted(B):
            if b in F or b in cores:
                continue
            if str(R.get(b)) != 'unprocessed':
                V('C09.1-nothing-written', 'built module %s is reported %s, not unprocessed, although %s failed' % (b, R.get(b), sorted(F)),
                  what='built-not-unprocessed', status=str(R.get(b)), stage=scn.get('stage'))
        for f in sorted(F):
            if f in cores or f in getattr(t, 'implicit_failures', ()):
                continue
            if str(R.get(f)) not in ('failed', 'missing'):
                V('C09.1-nothing-written', 'failed module %s is reported %s' % (f, R.get(f)), what='failed-status', status=str(R.get(f)))
    else:
        wfail = set(scn.get('writer_fail', ())) | set(c.mib for c in puts if not c.ok)
        for b in sorted(B):
            if b in F or b in wfail or b in cores:
                continue          # (with a D18 name around and no other failure known, the write decision is not judged)
            s = str(R.get(b))
            if s not in ('compiled', 'borrowed'):
                V('C09.2-ignore-errors' if F else 'C09.3-no-failure-all-written', 'built module %s is reported %s%s' % (b, s, ' although errors are ignored' if F else ' although nothing failed'),
                  what='built-not-compiled', status=s, stage=scn.get('stage'))
            if writing and okput.get(b, 0) != 1:
                V('C09.2-ignore-errors' if F else 'C09.3-no-failure-all-written', 'built module %s was written %d times' % (b, okput.get(b, 0)), what='built-not-written', stage=scn.get('stage'))
        for f in sorted(F):
            if f in cores or f in getattr(t, 'implicit_failures', ()):
                continue
            if str(R.get(f)) not in ('failed', 'missing'):
                V('C09.2-ignore-errors', 'bad module %s is reported %s, not failed/missing' % (f, R.get(f)), what='bad-status', status=str(R.get(f)))
            if f in okput:
                V('C09.2-ignore-errors', 'bad module %s was written' % f, what='bad-written')
    return viol


def run(scn):
    root = core.new_root('c09') if scn.get('realfs') else None
    try:
        return _run(scn, root)
    finally:
        if root:
            core.drop_root(root)


def _run(scn, root):
    t = cs.run_world(scn, root=root)
    viol = judge(t)
    if t.second is not None:
        for v in judge(t.second):
            v['key'] += '|second-call'
            v['facts']['call'] = 2
            v['message'] = 'second compile() on the same compiler: ' + v['message']
            viol.append(v)
    out = cs.outcome(t, viol, nontrivial=True if scn.get('planned_failure') else None, extra_sig=[scn.get('stage'), len(scn.get('modules', {}))])
    return out


def generate(rng, tier):
    scn = cs.gen_world(rng, tier, focus='C09')
    grp = [(k_, v_) for k_, v_ in scn.get('files', {}).items() if len(v_) > 1]
    if grp and rng.random() < 0.5:
        # bias: a later module of a multi-module file fails while the module the file is named after is fine and,
        # in half of these worlds, already up to date according to a searcher
        k_, v_ = grp[0]
        others = [m for m in v_ if m != k_]
        scn['modules'][k_]['variant'] = 'ok'
        scn['modules'][rng.choice(others)]['variant'] = rng.choice(['dupsym', 'unkparent'])
        for s_ in scn['sources']:
            if k_ in s_['holds']:
                s_['holds'][k_] = {'o': 'ok'}
        if rng.random() < 0.5:
            scn['searchers'] = [{'flavour': rng.choice(['file', 'stub', 'realstub']), 'answers': {k_: 'fresh'}}] + scn.get('searchers', [])[:1]
            scn['options'].pop('rebuild', None)
        if rng.random() < 0.5:
            scn['borrowers'] = []
    if rng.random() < 0.4 and not (grp and scn['borrowers'] == []):
        scn['files'] = {k: v for k, v in scn['files'].items() if k in scn.get('file_alias', {})}
        scn.pop('co_only', None)
    # make sure every generated module has at least a chance to be held somewhere
    return scn


shrink = cs.shrink_world
size = cs.size
describe = cs.describe
