"""C11 - malformed input is rejected with a located package error, never
accepted.  corruption-sim: a storage/transport layer damages well-formed
MIB text (EOF at every byte, byte replacement, line-block loss / duplication
/ insertion) in front of the real parser (all three shipped dialects) and in
front of compile() through a simulated source, the real FileReader over a
torn or capped file, and the real HttpReader over a cut response."""
import copy
import json
import os
import re

from verif.engines import compile_sim as cs
from verif.gen import basemibs, corpus
from verif.sim import core

PROPERTY = 'C11'
ENGINE = 'corruption-sim'
LEVEL = 'fault_enumeration'
QUICK_S = 45
THOROUGH_S = 480
CHUNK = 20
WORLD_CAP_S = 60
MINIMISE_S = 12
HANG_IS_VIOLATION = True
SELFCHECK_N = {'quick': 8, 'thorough': 30}
REAL_COMPONENTS = ['pysmi lexer + parser (SmiV2, SmiV1, SmiV1Compat dialects)', 'MibCompiler.compile (share of worlds)', 'FileReader (torn / capped file)', 'HttpReader (cut response body)']
STUB_COMPONENTS = ['storage/transport damage model (truncation, byte replacement, block loss/duplication/insertion)', 'urlopen (simulated responder, no socket)', 'source component for compile() worlds']
RULE = ('sweep: for every corpus file x dialect: truncation at every byte offset; replacement of every byte by each of a 5-character alphabet; insertion of an illegal character / forbidden word / '
        'oversize number / identifier ending in "-" before every top-level declaration (exact line expected); replacement inside comments and of indentation (result must equal the intact parse); '
        'truncations through compile(). seeded: multi-fault block damage. One evaluation = one parse/compile of one damaged text. '
        'distinct = distinct (file, fault kind, outcome class, error class, position class); non-trivial = every damaged text')
ASSUMPTIONS = ['covers the fault-reachable neighbourhood of well-formed MIBs, not arbitrary strings (that would be input fuzzing)',
               'termination is judged with a wall cap per chunk of parses']
SWEEP_SET = {'quick': '6 corpus files: all prefixes (3 dialects), all single-byte replacements x 5 characters (compat dialect), every token deleted / duplicated / case-swapped, oversize numbers substituted for every integer literal, every multi-line string with mixed CR / LF / CR LF line breaks followed by an illegal character, 14 predecessor texts (accepted and rejected, ending in every lexer state) x 6 judged texts x 3 dialects on one parser object, all declaration-line insertions x 6 kinds, all comment/indent replacements, compile() truncations every 7th offset',
             'thorough': '9 corpus files, same fault kinds, compile() truncations every 3rd offset'}

ALPHABET = ['@', '"', '{', '7', '\n', '%']
INSERTS = {'illegal': '@', 'illegal-pct': '% 100% wrong', 'forbidden': 'FALSE', 'bignum': '99999999999999999999999', 'dashid': 'trailing-', 'forbidden2': 'zzz NULL',
           'illegal-ctrlz': '\x1a', 'illegal-nul': '\x00',
           # a forbidden ASN.1 keyword with a comment glued to it: one odd identifier or an error, never the bare keyword
           'glued-forbidden': 'ZzGlued ::= BOOLEAN--glued'}
DIALECTS = ['smiV1Relaxed', 'smiV2', 'smiV1']
_parsers = {}
_intact = {}
_files = {}


def files(tier):
    if tier not in _files:
        _files[tier] = corpus.corpus(tier)
    return _files[tier]


STABLE = {'smiV2': ('pysmi.parser.smiv2', 'SmiV2Parser'), 'smiV1': ('pysmi.parser.smiv1', 'SmiV1Parser'), 'smiV1Relaxed': ('pysmi.parser.smiv1compat', 'SmiV1CompatParser')}


def parser(d):
    """The parser objects are made from the classes the package exports for the three dialects (what applications and
    the scripts instantiate), and the one used is never the first object of its class in the process."""
    if d not in _parsers:
        import importlib
        mod, cls = STABLE[d]
        klass = getattr(importlib.import_module(mod), cls)
        _parsers[d + ':first'] = klass()
        _parsers[d] = klass()
    p = _parsers[d]
    p.reset()
    return p


def intact(tier, fi, d):
    key = (tier, fi, d)
    if key not in _intact:
        res = attempt(d, files(tier)[fi].text)
        if res[0] != 'ok':
            return None     # the intact, well-formed file is rejected: judged by the caller
        _intact[key] = res[1]
    return _intact[key]


def nlines(text):
    return len(re.findall(r'\r\n|\n|\r', text)) + 1


class ParseTimeout(BaseException):
    pass


PARSE_CPU_CAP_S = 3.0     # CPU seconds for one parse of a few KiB (normal: milliseconds)


def _vt_fire(signum, frame):
    raise ParseTimeout()


def attempt(d, text, pred=None):
    """-> ('ok', trees) | ('lexerr', exc) | ('foreign', exc) | ('timeout', None)
    pred: a text the same parser object is given first, exactly as an application would (parse() only, whatever it
    returns or raises); the judged text follows without anything in between"""
    import signal
    from pysmi import error
    p = parser(d)
    old = signal.signal(signal.SIGVTALRM, _vt_fire)
    signal.setitimer(signal.ITIMER_VIRTUAL, PARSE_CPU_CAP_S)
    try:
        try:
            if pred is not None:
                try:
                    p.parse(pred)
                except ParseTimeout:
                    raise
                except (core.WorldTimeout, core.StepBudget, KeyboardInterrupt):
                    raise
                except BaseException:  # noqa
                    pass
            return 'ok', p.parse(text)
        finally:
            signal.setitimer(signal.ITIMER_VIRTUAL, 0)
            signal.signal(signal.SIGVTALRM, old)
    except ParseTimeout:
        _parsers.pop(d, None)      # the interrupted parser object is not reused
        return 'timeout', None
    except error.PySmiLexerError as e:
        return 'lexerr', e
    except (core.WorldTimeout, core.StepBudget, KeyboardInterrupt):
        raise
    except BaseException as e:  # noqa
        return 'foreign', e


class Judge(object):
    def __init__(self, scn):
        self.scn = scn
        self.viol = []
        self.units = 0
        self.sigs = set()
        self.fired = {}
        self.abort = False

    def V(self, clause, msg, **facts):
        if len(self.viol) < 5:
            facts['kind'] = self.scn['k']
            self.viol.append({'clause': clause, 'key': '%s|%s|%s' % (clause, facts.get('what', ''), self.scn['k']), 'facts': facts, 'message': msg})

    def fire(self, kind, n=1):
        self.fired[kind] = self.fired.get(kind, 0) + n

    def clause1(self, res, text, where):
        kind, val = res
        if kind == 'timeout':
            self.abort = True      # one demonstrated hang per chunk is enough; do not burn the budget on its neighbours
            self.V('C11.6-terminates', 'parsing did not finish within %.0f CPU seconds %s' % (PARSE_CPU_CAP_S, where), what='timeout')
            return False
        if kind == 'foreign':
            self.V('C11.1-package-error', 'parser raised %s (%s) %s' % (type(val).__name__, str(val)[:80], where), what='foreign', exception=type(val).__name__)
            return False
        if kind == 'lexerr':
            ln = getattr(val, 'lineno', None)
            if not isinstance(ln, int) or isinstance(ln, bool) or ln < 1 or ln > nlines(text) + 1:
                self.V('C11.1-package-error', 'error %s carries line number %r for a text of %d lines %s' % (type(val).__name__, ln, nlines(text), where), what='lineno-range')
                return False
        return True


def run(scn):
    tier = scn.get('tier', 'quick')
    fl = files(tier)
    k = scn['k']
    J = Judge(scn)
    w = core.World()
    d = scn.get('dialect', 'smiV1Relaxed')
    if k == 'prefix':
        f = fl[scn['file']]
        ref = intact(tier, scn['file'], d)
        if ref is None:
            J.V('C11.4-unchanged', 'the intact well-formed file %s is rejected by the %s parser' % (f.name, d), what='intact-rejected')
            ref = []
        for pos in range(scn['lo'], min(scn['hi'], len(f.text))):
            if J.abort:
                break
            text = f.text[:pos]
            res = attempt(d, text)
            J.units += 1
            J.fire('truncate')
            ok1 = J.clause1(res, text, 'for file %s cut at %d' % (f.name, pos))
            inside = f.inside_module(pos)
            if inside and res[0] == 'lexerr' and 'end of input' in str(getattr(res[1], 'msg', res[1])).lower():
                # the offending "token" is the end of the text: it is on the last line of what is left of the file
                ln = getattr(res[1], 'lineno', None)
                if isinstance(ln, int) and ln != nlines(text):
                    J.V('C11.2-lineno', 'text of %s cut at offset %d ends on line %d; the end-of-input error reports line %r' % (f.name, pos, nlines(text), ln),
                        what='eof-line', reported_low=ln < nlines(text))
            if inside:
                if res[0] == 'ok':
                    J.V('C11.3-truncated', 'text of %s cut at offset %d (inside a module) parsed successfully to %d module(s)' % (f.name, pos, len(res[1])),
                        what='accepted-truncated', returned=len(res[1]))
            elif ok1:
                # between modules / trailing white space or comment: the prefix of complete modules must come back
                li = max(i for i, o in enumerate(f.offs) if o <= pos)
                kind_l, t_l = f.lines[li]
                col = pos - f.offs[li]
                dashy = kind_l == 'comment' and col == t_l.index('--') + 1
                if not dashy:
                    n = f.modules_before(pos)
                    if res[0] != 'ok':
                        J.V('C11.4-unchanged', 'text of %s cut at %d (outside any module) was rejected: %s' % (f.name, pos, res[1]), what='rejected-complete')
                    elif res[1] != ref[:n]:
                        J.V('C11.4-unchanged', 'prefix of %s cut at %d gave %d modules that differ from the intact parse' % (f.name, pos, len(res[1])), what='prefix-differs')
            J.sigs.add((f.name, 'prefix', res[0], type(res[1]).__name__ if res[0] != 'ok' else len(res[1]), inside))
    elif k == 'replace':
        f = fl[scn['file']]
        for pos in range(scn['lo'], min(scn['hi'], len(f.text))):
            for ch in ALPHABET:
                if f.text[pos] == ch or J.abort:
                    continue
                text = f.text[:pos] + ch + f.text[pos + 1:]
                res = attempt(d, text)
                J.units += 1
                J.fire('byte-replace')
                J.clause1(res, text, 'for file %s byte %d -> %r' % (f.name, pos, ch))
                J.sigs.add((f.name, 'replace', ch, res[0], type(res[1]).__name__ if res[0] != 'ok' else 'ok'))
    elif k == 'insert':
        f = fl[scn['file']]
        for line in scn['lines']:
            for what, tok in sorted(INSERTS.items()):
                lines = f.text.split(f.eol)
                lines.insert(line - 1, tok)
                text = f.eol.join(lines)
                res = attempt(d, text)
                J.units += 1
                J.fire('insert:' + what)
                J.clause1(res, text, 'for file %s with %r inserted as line %d' % (f.name, tok, line))
                if what == 'glued-forbidden':
                    if res[0] == 'ok' and re.search(r"'BOOLEAN'", repr(res[1])):
                        J.V('C11.3-truncated', 'the forbidden keyword BOOLEAN (comment glued to it) inserted as line %d of %s came back as a name in the tree' % (line, f.name),
                            what='forbidden-keyword-accepted', inserted=what)
                elif res[0] == 'ok':
                    J.V('C11.3-truncated', '%r inserted as line %d of %s was accepted' % (tok, line, f.name), what='accepted-garbage', inserted=what)
                elif res[0] == 'lexerr':
                    want = line if what != 'forbidden2' else line
                    if getattr(res[1], 'lineno', None) != want:
                        J.V('C11.2-line', '%r inserted as line %d of %s is reported at line %r (%s)' % (tok, line, f.name, getattr(res[1], 'lineno', None), res[1]),
                            what='wrong-line', inserted=what, delta=(getattr(res[1], 'lineno', 0) or 0) - want)
                J.sigs.add((f.name, 'insert', what, res[0], type(res[1]).__name__ if res[0] != 'ok' else 'ok'))
    elif k == 'number':
        f = fl[scn['file']]
        for (pos, end, line) in scn['spots']:
            for big, reject in BIG_NUMBERS:
                label = big if len(big) < 40 else '%s...(%d characters)' % (big[:12], len(big))
                text = f.text[:pos] + big + f.text[end:]
                res = attempt(d, text)
                J.units += 1
                J.fire('oversize-number-in-place' if reject else 'zero-padded-number-in-place')
                J.clause1(res, text, 'for file %s with %s at offset %d' % (f.name, label, pos))
                if not reject:
                    pass        # a small value behind thousands of zeros: accepted or a located package error, never anything else
                elif res[0] == 'ok':
                    J.V('C11.3-truncated', 'number %s beyond 64 bits substituted at line %d of %s was accepted' % (label, line, f.name), what='accepted-oversize-number',
                        negative=big.startswith('-'))
                elif res[0] == 'lexerr' and getattr(res[1], 'lineno', None) != line:
                    J.V('C11.2-line', 'oversize number at line %d of %s reported at line %r' % (line, f.name, getattr(res[1], 'lineno', None)), what='wrong-line-number', inserted='bignum')
                J.sigs.add((f.name, 'number', big[0] == '-', len(big) > 4300, res[0], type(res[1]).__name__ if res[0] != 'ok' else 'ok'))
    elif k == 'string':
        f = fl[scn['file']]
        ref = intact(tier, scn['file'], d)
        for (pos, end) in scn['spans']:
            if J.abort:
                break
            for inner in ('', 'x', '2020-01-01', '202001010000', '99991231', 'caf\u00e9', '100% sure', 'a\tb'):
                text = f.text[:pos] + '"' + inner + '"' + f.text[end:]
                res = attempt(d, text)
                J.units += 1
                J.fire('string-content-replaced')
                if J.clause1(res, text, 'for file %s with string at %d replaced by %r' % (f.name, pos, inner)) and res[0] == 'ok' and ref is not None:
                    # only the content of one quoted string changed: the same modules must come back, nothing dropped
                    if len(res[1]) != len(ref) or [m[0] for m in res[1]] != [m[0] for m in ref]:
                        J.V('C11.3-truncated', 'replacing a quoted string of %s by "%s" made the parser return %d module(s) instead of %d without any error' % (
                            f.name, inner, len(res[1]), len(ref)), what='modules-dropped-silently')
                J.sigs.add((f.name, 'string', inner, res[0], type(res[1]).__name__ if res[0] not in ('ok', 'timeout') else res[0]))
    elif k == 'token':
        f = fl[scn['file']]
        for (pos, end) in scn['spans']:
            if J.abort:
                break
            tok = f.text[pos:end]
            for what, text in (('delete', f.text[:pos] + f.text[end:]), ('duplicate', f.text[:end] + ' ' + tok + f.text[end:]),
                               ('swap-case', f.text[:pos] + tok.swapcase() + f.text[end:])):
                if text == f.text:
                    continue
                res = attempt(d, text)
                J.units += 1
                J.fire('token-' + what)
                J.clause1(res, text, 'for file %s with token %r at %d %sd' % (f.name, tok[:20], pos, what))
                J.sigs.add((f.name, 'token', what, res[0], type(res[1]).__name__ if res[0] not in ('ok', 'timeout') else res[0]))
    elif k == 'dupstring':
        # a quoted string that spans lines, given twice: the second copy is the offending token and it starts on the line
        # where the first one ends
        f = fl[scn['file']]
        for (pos, end) in scn['spans']:
            tok = f.text[pos:end]
            text = f.text[:end] + ' ' + tok + f.text[end:]
            res = attempt(d, text)
            J.units += 1
            J.fire('multi-line-string-duplicated')
            J.clause1(res, text, 'for file %s with the string at %d given twice' % (f.name, pos))
            want = nlines(f.text[:end])
            if res[0] == 'ok':
                J.V('C11.3-truncated', 'a string given twice at offset %d of %s was accepted' % (pos, f.name), what='accepted-garbage', inserted='string-twice')
            elif res[0] == 'lexerr' and 'end of input' not in str(getattr(res[1], 'msg', res[1])).lower() and getattr(res[1], 'lineno', None) != want:
                J.V('C11.2-line', 'the second copy of a %d-line string starts on line %d of %s; the error reports line %r' % (tok.count(f.eol) + 1, want, f.name, getattr(res[1], 'lineno', None)),
                    what='wrong-line-multiline-token', delta=(getattr(res[1], 'lineno', 0) or 0) - want)
            J.sigs.add((f.name, 'dupstring', res[0], type(res[1]).__name__ if res[0] != 'ok' else 'ok'))
    elif k == 'mixedeol':
        # the line breaks inside one quoted string follow different conventions (a file edited on several systems, a
        # CR CR LF artefact of a text-mode transfer); an illegal character right behind the string is on the line where
        # the string ends
        f = fl[scn['file']]
        for (pos, end) in scn['spans']:
            tok = f.text[pos:end]
            for start in range(3):
                cyc = ['\r', '\n', '\r\n']
                cnt = [start]

                def brk(m):
                    cnt[0] += 1
                    return cyc[cnt[0] % 3]
                tok2 = re.sub(r'\r\n|\n|\r', brk, tok)
                text = f.text[:pos] + tok2 + ' @' + f.text[end:]
                want = nlines(f.text[:pos] + tok2)
                res = attempt(d, text)
                J.units += 1
                J.fire('mixed-line-ends-in-string')
                J.clause1(res, text, 'for file %s with mixed line ends in the string at %d' % (f.name, pos))
                if res[0] == 'ok':
                    J.V('C11.3-truncated', 'an illegal character behind the string at offset %d of %s was accepted' % (pos, f.name), what='accepted-garbage', inserted='illegal-after-string')
                elif res[0] == 'lexerr' and getattr(res[1], 'lineno', None) != want:
                    J.V('C11.2-line', 'illegal character on line %d of %s (behind a string whose line breaks are a mix of CR, LF and CR LF) reported at line %r' % (
                        want, f.name, getattr(res[1], 'lineno', None)), what='wrong-line-mixed-eol', delta=(getattr(res[1], 'lineno', 0) or 0) - want)
                J.sigs.add((f.name, 'mixedeol', start, res[0], type(res[1]).__name__ if res[0] != 'ok' else 'ok'))
    elif k == 'after':
        # the parser object has just processed another text (accepted or rejected, ending in any lexer state); the
        # judged text must be treated as if it were the first
        f = fl[scn['file']]
        ref = intact(tier, scn['file'], d)
        first_eol = f.text.find(f.eol)
        lines = f.text.split(f.eol)
        dl_ = f.decl_lines()
        mid = dl_[len(dl_) // 2] if dl_ else 1      # 1-based line number of a declaration: an insertion point outside strings and comments
        for pi in scn['preds']:
            pname, ptext = PREDECESSORS[pi]
            ptext = ptext.replace('\n', f.eol) if scn.get('pred_eol') else ptext
            judged = [('intact', f.text, None),
                      ('illegal-line-1', '@' + f.eol + f.text, 1),
                      ('illegal-in-line-1', '@ ' + f.text, 1),
                      ('forbidden-line-1', 'FALSE ' + f.text, 1),
                      ('cut-in-line-1', f.text[:max(1, first_eol)], None),
                      ('illegal-mid', f.eol.join(lines[:mid - 1] + ['@'] + lines[mid - 1:]), mid)]
            for jname, text, want in judged:
                if J.abort:
                    break
                res = attempt(d, text, pred=ptext)
                J.units += 1
                J.fire('predecessor:' + pname)
                J.clause1(res, text, 'for file %s (%s) given to a parser that had just processed %r' % (f.name, jname, pname))
                if jname == 'intact':
                    if ref is not None and (res[0] != 'ok' or res[1] != ref):
                        J.V('C11.4-unchanged', 'the intact file %s is %s by a parser object that had just processed %r' % (
                            f.name, 'rejected (%s)' % res[1] if res[0] != 'ok' else 'parsed differently', pname), what='after-predecessor-intact', predecessor=pname)
                elif jname == 'cut-in-line-1':
                    if res[0] == 'ok' and f.inside_module(max(1, first_eol)):
                        J.V('C11.3-truncated', 'text of %s cut inside its first line was accepted (%d modules) by a parser object that had just processed %r' % (f.name, len(res[1]), pname),
                            what='accepted-truncated-after-predecessor', predecessor=pname)
                elif res[0] == 'ok':
                    J.V('C11.3-truncated', '%s of %s was accepted by a parser object that had just processed %r' % (jname, f.name, pname), what='accepted-garbage-after-predecessor',
                        predecessor=pname, inserted=jname)
                elif res[0] == 'lexerr' and getattr(res[1], 'lineno', None) != want:
                    J.V('C11.2-line', '%s of %s reported at line %r instead of %d by a parser object that had just processed %r' % (jname, f.name, getattr(res[1], 'lineno', None), want, pname),
                        what='wrong-line-after-predecessor', predecessor=pname, inserted=jname)
                J.sigs.add((f.name, 'after', pname, jname, res[0], type(res[1]).__name__ if res[0] != 'ok' else 'ok'))
    elif k in ('comment', 'indent'):
        f = fl[scn['file']]
        ref = intact(tier, scn['file'], d)
        if ref is None:
            J.V('C11.4-unchanged', 'the intact well-formed file %s is rejected by the %s parser' % (f.name, d), what='intact-rejected')
        for pos in scn['positions']:
            for ch in (['x', '"', '@', '{', ';'] if k == 'comment' else ['\t']):
                text = f.text[:pos] + ch + f.text[pos + 1:]
                res = attempt(d, text)
                J.units += 1
                J.fire('neutral-replace:' + k)
                if res[0] != 'ok' or res[1] != ref:
                    J.V('C11.4-unchanged', 'replacing %s character %d of %s by %r changed the outcome (%s)' % (
                        'comment' if k == 'comment' else 'indentation', pos, f.name, ch, res[0] if res[0] == 'ok' else res[1]), what='neutral-changed')
                J.sigs.add((f.name, k, ch, res[0]))
    elif k == 'blocks':
        f = fl[scn['file']]
        lines = f.text.split(f.eol)
        for op in scn['ops']:
            a, b = op['a'] % max(1, len(lines)), op['b']
            if op['op'] == 'drop':
                del lines[a:a + b]
                J.fire('block-loss')
            elif op['op'] == 'dup':
                lines[a:a] = lines[a:a + b]
                J.fire('block-duplication')
            elif op['op'] == 'ins':
                lines[a:a] = op['text']
                J.fire('block-insertion')
        text = f.eol.join(lines)
        if scn.get('cut') is not None:
            text = text[:scn['cut'] % max(1, len(text))]
            J.fire('truncate')
        res = attempt(d, text)
        J.units += 1
        J.clause1(res, text, 'for file %s after block damage' % f.name)
        J.sigs.add((f.name, 'blocks', tuple(o['op'] for o in scn['ops']), res[0], type(res[1]).__name__ if res[0] != 'ok' else 'ok'))
    elif k == 'compile':
        return run_compile(scn, J, tier)
    fp, fph = w.fingerprints(extra=[sorted(map(str, J.sigs)), J.units, [v['key'] for v in J.viol]])
    return {'violations': J.viol, 'sig': json.dumps(sorted(map(str, J.sigs))[:40]), 'nontrivial': True, 'events': J.units, 'sim_s': 0,
            'fired': J.fired, 'probes': {}, 'fp': fp, 'fph': fp, 'comps': {'parser.parse(real)': J.units}, 'units': J.units, 'sigs': [json.dumps(list(map(str, s))) for s in J.sigs]}


# --------------------------------------------------------------------------
class _Resp(object):
    def __init__(self, body, code=200, lastmod='Mon, 01 Jan 2018 00:00:00 GMT'):
        self._b = body
        self.code = code
        self._lm = lastmod

    def getheader(self, name, default=None):
        return self._lm if name == 'Last-Modified' else default

    def read(self, n=-1):
        return self._b if n is None or n < 0 else self._b[:n]


COMPANION = 'ZZ-BROKEN-MIB'
COMPANION_TEXT = 'ZZ-BROKEN-MIB DEFINITIONS ::= BEGIN\n\n\n\n\n\nzzNode OBJECT IDENTIFIER ::= { ? 1 }\nEND\n'     # illegal character on line 7


def direct_outcome(text):
    """what the same parser object class yields for the text on its own: (class name, lineno) of the error, or None"""
    from pysmi import error
    p = cs.get_parser()
    try:
        p.parse(text)
        return None
    except error.PySmiError as e:
        return (type(e).__name__, getattr(e, 'lineno', None))
    except Exception:   # noqa - judged elsewhere (clause 1)
        return ('foreign', None)
    finally:
        cs.get_parser()


def run_compile(scn, J, tier):
    from pysmi import error
    f = files(tier)[scn['file']]
    names = [f.lines[a][1].split()[0] for (a, b) in f.mod_lines]
    req = names[0]
    viol = J.viol
    units = 0
    fired = {}
    probes = {}
    fps = []
    import signal
    hung = False
    for cut in scn['cuts']:
        if hung:
            break
        via = scn['via']
        noise = scn.get('noise')
        if noise:
            # instead of a cut: a stray separator character as a line of its own before declaration line `cut`
            lines_ = f.text.split(f.eol)
            lines_.insert(cut - 1, noise)
            damaged = f.eol.join(lines_)
            inside = True
            cut_pos = cut
            cut = 0
        else:
            damaged = f.text[:cut]
            inside = f.inside_module(cut)
        root = None
        # a second, differently broken module is requested in the same call (before or after the damaged one): every
        # failed entry must carry its own error
        comp_first = (cut + len(via)) % 2 == 0
        reqs = [COMPANION, req] if comp_first else [req, COMPANION]
        base = {'modules': {}, 'requested': reqs, 'options': {'ignoreErrors': True}, 'codegen': 'json', 'searchers': [], 'borrowers': []}
        try:
            oldh = signal.signal(signal.SIGVTALRM, _vt_fire)
            signal.setitimer(signal.ITIMER_VIRTUAL, PARSE_CPU_CAP_S * 3)
            if via == 'sim':
                base['sources'] = [{'holds': {req: {'o': 'ok', 'text': damaged}, COMPANION: {'o': 'ok', 'text': COMPANION_TEXT}}, 'base': 'all'}]
                t = cs.run_world(base)
            else:
                import pysmi.compiler as pc
                root = core.new_root('c11')
                src = os.path.join(root, 'src')
                with core.unhooked():
                    os.makedirs(src)
                    for n, txt in basemibs.ALL_BASE.items():
                        with open(os.path.join(src, n), 'w') as fh:
                            fh.write(txt)
                    with open(os.path.join(src, req), 'wb') as fh:
                        fh.write((f.text if via == 'filecap' else damaged).encode())
                    with open(os.path.join(src, COMPANION), 'wb') as fh:
                        fh.write(COMPANION_TEXT.encode())
                base['sources'] = []
                from pysmi.reader.localfile import FileReader
                from pysmi.reader.httpclient import HttpReader
                import pysmi.reader.httpclient as hc

                class Wrap(object):
                    """real reader behind the source tap"""
                    def __init__(self, real):
                        self._r = real

                    def getData(self, name, **kw):
                        return self._r.getData(name, **kw)
                if via in ('file', 'filecap'):
                    rd = FileReader(src)
                    if via == 'filecap':
                        rd.setOptions(maxMibSize=max(cut, 1))
                    readers = [rd]
                else:
                    bodies = dict((n, txt.encode()) for n, txt in basemibs.ALL_BASE.items())
                    bodies[req] = damaged.encode()
                    bodies[COMPANION] = COMPANION_TEXT.encode()

                    def fake_urlopen(reqobj):
                        url = reqobj.full_url
                        name = url.rsplit('/', 1)[-1]
                        if name in bodies:
                            return _Resp(bodies[name])
                        raise IOError('HTTP Error 404: Not Found')
                    saved = hc.urlopen
                    hc.urlopen = fake_urlopen
                    readers = [HttpReader('mibs.example.com', 80, '/asn1/@mib@')]
                w = core.World(root=root, step_cap=4000)
                t = cs.Trace(base, w)
                core.patch_pysmi()
                comp = pc.MibCompiler(cs.TapParser(t, cs.get_parser()), cs.TapCodegen(t, cs.new_codegen('json')), cs.SimWriter(t, base))
                comp.addSources(*readers)
                try:
                    with core.partitioned_network():
                        with w:
                            w.begin_op(0, 'compile')
                            try:
                                t.R = comp.compile(*reqs, ignoreErrors=True)
                            except (core.WorldTimeout, core.StepBudget):
                                raise
                            except BaseException as e:  # noqa
                                t.escaped = e
                            w.end_op()
                finally:
                    if via == 'http':
                        hc.urlopen = saved
                    cs.get_parser()
            signal.setitimer(signal.ITIMER_VIRTUAL, 0)
            units += 1
            fired['truncate:' + via] = fired.get('truncate:' + via, 0) + 1
            R = t.R
            what = 'via=%s file=%s cut=%d' % (via, f.name, cut)
            if isinstance(t.escaped, ParseTimeout):
                hung = True
                cs._cache.pop('parser', None)
                viol.append({'clause': 'C11.6-terminates', 'key': 'C11.6-terminates|timeout|compile', 'facts': {'what': 'timeout', 'via': via, 'kind': 'compile'},
                             'message': 'compile() of text cut at %d did not finish within %.0f CPU seconds (%s)' % (cut, PARSE_CPU_CAP_S * 3, what)})
            elif t.escaped is not None:
                viol.append({'clause': 'C11.5-compile', 'key': 'C11.5-compile|raised|%s' % via, 'facts': {'what': 'raised', 'via': via, 'exception': type(t.escaped).__name__},
                             'message': 'compile() raised %s on damaged text (%s)' % (type(t.escaped).__name__, what)})
            elif req not in R and not any(n in R for n in names):
                if damaged.strip() and not (via == 'filecap'):
                    viol.append({'clause': 'C11.5-compile', 'key': 'C11.5-compile|no-status|%s' % via, 'facts': {'what': 'no-status', 'via': via},
                                 'message': 'requested module has no status after compile() of damaged text (%s)' % what})
            else:
                st = R.get(req)
                s = str(st)
                truncated_really = via != 'filecap' or cut <= len(f.text.encode())
                if inside and via != 'filecap' and s in ('compiled', 'untouched'):
                    # which module would be cut? the requested one is the first; if the cut is in a later module the first may compile
                    first_span = f.spans[0]
                    if cut < first_span[1]:
                        viol.append({'clause': 'C11.5-compile', 'key': 'C11.5-compile|compiled-truncated|%s' % via, 'facts': {'what': 'compiled-truncated', 'via': via},
                                     'message': 'module %s reported %s from text cut inside it (%s)' % (req, s, what)})
                if via == 'filecap' and s == 'compiled' and cut <= len(f.text.encode()):
                    viol.append({'clause': 'C11.5-compile', 'key': 'C11.5-compile|compiled-capped|%s' % via, 'facts': {'what': 'compiled-capped', 'via': via},
                                 'message': 'module %s compiled although the file is at/above the size cap %d' % (req, cut)})
                zs = R.get(COMPANION)
                ze = getattr(zs, 'error', None)
                if via != 'filecap' and (str(zs) != 'failed' or not isinstance(ze, error.PySmiLexerError) or getattr(ze, 'lineno', None) != 7):   # (the size cap of 'filecap' hits the companion file too)
                    viol.append({'clause': 'C11.5-compile', 'key': 'C11.5-compile|companion-error|%s' % via, 'facts': {'what': 'companion-error', 'via': via},
                                 'message': 'the other broken module of the call (illegal character on line 7) is reported %s with %s line %r (%s)' % (
                                     zs, type(ze).__name__, getattr(ze, 'lineno', None), what)})
                if s == 'failed' and via != 'filecap':
                    e = getattr(st, 'error', None)
                    want = direct_outcome(damaged)
                    if want is not None and want[0] != 'foreign' and isinstance(e, error.PySmiLexerError) and (type(e).__name__, getattr(e, 'lineno', None)) != want:
                        viol.append({'clause': 'C11.5-compile', 'key': 'C11.5-compile|foreign-error|%s' % via, 'facts': {'what': 'foreign-error', 'via': via},
                                     'message': 'the failed entry of %s carries %s line %r; parsing the same text on its own gives %s line %r (%s)' % (
                                         req, type(e).__name__, getattr(e, 'lineno', None), want[0], want[1], what)})
                if s == 'failed':
                    e = getattr(st, 'error', None)
                    if isinstance(e, error.PySmiLexerError):
                        ln = getattr(e, 'lineno', None)
                        if not isinstance(ln, int) or ln < 1 or ln > nlines(damaged) + 1:
                            viol.append({'clause': 'C11.1-package-error', 'key': 'C11.1-package-error|lineno-range|compile', 'facts': {'what': 'lineno-range', 'via': via},
                                         'message': 'failed status carries line number %r (%s)' % (ln, what)})
                probes['compile-status:' + s] = probes.get('compile-status:' + s, 0) + 1
            J.sigs.add((f.name, 'compile', via, str(R.get(req)) if isinstance(R, dict) else 'raised', inside))
            fps.append(t.world.fingerprints(extra=cs.status_digest(t.R))[0])
        except ParseTimeout:
            hung = True
            core._state.world = None
            core._tls.depth = 0
            cs._cache.pop('parser', None)
            viol.append({'clause': 'C11.6-terminates', 'key': 'C11.6-terminates|timeout|compile', 'facts': {'what': 'timeout', 'via': scn['via'], 'kind': 'compile'},
                         'message': 'compile() of text cut at %d did not finish within %.0f CPU seconds (via=%s file=%s)' % (cut, PARSE_CPU_CAP_S * 3, scn['via'], f.name)})
        finally:
            signal.setitimer(signal.ITIMER_VIRTUAL, 0)
            if root:
                core.drop_root(root)
    import hashlib
    fp = hashlib.sha256(json.dumps(fps).encode()).hexdigest()[:32]
    return {'violations': viol[:5], 'sig': json.dumps(sorted(map(str, J.sigs))[:40]), 'nontrivial': True, 'events': units, 'sim_s': 0, 'fired': fired, 'probes': probes,
            'fp': fp, 'fph': fp, 'comps': {'compile(real)': units}, 'units': units, 'sigs': [json.dumps(list(map(str, s))) for s in J.sigs]}


# --------------------------------------------------------------------------
# (literal, must be rejected): beyond 64 bits, beyond the interpreter's own limit for decimal conversion (4300 digits), and small values written with
# thousands of leading zeros
_OKMOD = 'PRED-MIB DEFINITIONS ::= BEGIN\npredNode OBJECT IDENTIFIER ::= { iso 1 }\nEND'
PREDECESSORS = [
    ('accepted, ends in a comment without line break', _OKMOD + ' -- end of PRED-MIB'),
    ('accepted, ends with END without line break', _OKMOD),
    ('accepted, 40 trailing blank lines', _OKMOD + '\n' * 40),
    ('comment only, no line break', '-- nothing but a comment'),
    ('empty', ''),
    ('rejected inside a quoted string', 'PRED-MIB DEFINITIONS ::= BEGIN\npredNode OBJECT-IDENTITY STATUS current DESCRIPTION "never closed\n\n\n'),
    ('rejected inside a MACRO body', 'PRED-MIB DEFINITIONS ::= BEGIN\nOBJECT-TYPE MACRO ::=\nBEGIN\n  TYPE NOTATION ::= "SYNTAX"\n\n'),
    ('rejected inside a CHOICE', 'PRED-MIB DEFINITIONS ::= BEGIN\nPredChoice ::= CHOICE {\n a INTEGER,\n'),
    ('rejected inside EXPORTS', 'PRED-MIB DEFINITIONS ::= BEGIN\nEXPORTS a, b,\n c\n'),
    ('rejected by an illegal character on line 30', 'PRED-MIB DEFINITIONS ::= BEGIN\n' + '\n' * 28 + '@\nEND\n'),
    ('rejected: forbidden word', 'PRED-MIB DEFINITIONS ::= BEGIN\nx OBJECT IDENTIFIER ::= { FALSE 1 }\nEND\n'),
    ('rejected by the grammar', 'PRED-MIB DEFINITIONS ::= BEGIN\nx OBJECT IDENTIFIER ::= ::= { a 1 }\nEND\n'),
    ('accepted, comment closed by a second -- at the very end', _OKMOD + ' -- closed --'),
    ('accepted, ends in a comment, CR line ends', _OKMOD.replace('\n', '\r') + '\r-- bye'),
]


BIG_NUMBERS = [('18446744073709551616', True), ('-18446744073709551616', True), ('1000000000000000000000000000000', True), ('-1000000000000000000000000000000', True),
               ('9' * 4301, True), ('-' + '9' * 5000, True), ('0' * 4400 + '7', False), ('-' + '0' * 4400 + '7', False)]


def number_spots(f):
    """(start, end, 1-based line) of integer literals on plain code lines, outside quoted strings and comments"""
    out = []
    for i, (kind, t) in enumerate(f.lines):
        if kind not in ('code', 'decl'):
            continue
        code = t.split('--')[0]
        # blank out quoted strings
        code = re.sub(r'"[^"]*"', lambda m: ' ' * len(m.group(0)), code)
        if code.count('"') % 2:
            continue
        for m in re.finditer(r"(?<![\w'-])-?\d+(?![\w'])", code):
            out.append((f.offs[i] + m.start(), f.offs[i] + m.end(), i + 1))
    return out


def token_spans(f):
    """(start, end) of tokens on plain code lines (own approximate tokeniser: quoted strings, words, punctuation)"""
    out = []
    for i, (kind, t) in enumerate(f.lines):
        if kind not in ('code', 'decl', 'head', 'end'):
            continue
        code = t.split('--')[0] if t.count('"') % 2 == 0 else t
        for m in re.finditer(r'"[^"]*"|\'[0-9a-fA-F]*\'[hHbB]|[A-Za-z0-9][A-Za-z0-9-]*|::=|\.\.|[{}()\[\],;|.-]', code):
            out.append((f.offs[i] + m.start(), f.offs[i] + m.end()))
    return out


def sweep(tier):
    out = []
    fl = files(tier)
    step = 250
    for fi, f in enumerate(fl):
        n = len(f.text)
        for d in DIALECTS:
            for lo in range(0, n + 1, step):
                out.append({'k': 'prefix', 'tier': tier, 'file': fi, 'dialect': d, 'lo': lo, 'hi': min(lo + step, n + 1)})
        for lo in range(0, n, 60):
            out.append({'k': 'replace', 'tier': tier, 'file': fi, 'lo': lo, 'hi': min(lo + 60, n)})
        # insertion points: before every declaration / END, and before every module header (i.e. between modules and before the first)
        dl = sorted(set(f.decl_lines() + [a + 1 for (a, b) in f.mod_lines]))
        for i in range(0, len(dl), 10):
            out.append({'k': 'insert', 'tier': tier, 'file': fi, 'lines': dl[i:i + 10]})
        sspans = [(a, b) for (a, b) in token_spans(f) if f.text[a] == '"']
        for i in range(0, len(sspans), 12):
            out.append({'k': 'string', 'tier': tier, 'file': fi, 'spans': sspans[i:i + 12]})
        mspans = [(m.start(), m.end()) for m in re.finditer(r'"[^"]*"', f.text) if f.eol in m.group(0) and f.text[:m.start()].count('"') % 2 == 0
                  and '--' not in f.text[f.text.rfind(f.eol, 0, m.start()) + 1:m.start()]]
        for i in range(0, len(mspans), 12):
            out.append({'k': 'dupstring', 'tier': tier, 'file': fi, 'spans': mspans[i:i + 12]})
        for i in range(0, len(mspans), 6):
            out.append({'k': 'mixedeol', 'tier': tier, 'file': fi, 'spans': mspans[i:i + 6], 'dialect': DIALECTS[(fi + i) % 3]})
        for di, d in enumerate(DIALECTS):
            for i in range(0, len(PREDECESSORS), 5):
                out.append({'k': 'after', 'tier': tier, 'file': fi, 'dialect': d, 'preds': list(range(i, min(i + 5, len(PREDECESSORS))))})
        spans = token_spans(f)
        for i in range(0, len(spans), 60):
            out.append({'k': 'token', 'tier': tier, 'file': fi, 'spans': spans[i:i + 60]})
            if f.eol != '\n' or (i // 60) % 3 == 0:
                # the same damage with pysmi's diagnostic logging switched on (all of it for files with CR or CR LF line ends)
                out.append({'k': 'token', 'tier': tier, 'file': fi, 'spans': spans[i:i + 60], 'debug': True})
        spots = number_spots(f)
        for i in range(0, len(spots), 12):
            out.append({'k': 'number', 'tier': tier, 'file': fi, 'spots': spots[i:i + 12]})
        cc = f.comment_chars()
        for i in range(0, len(cc), 40):
            out.append({'k': 'comment', 'tier': tier, 'file': fi, 'positions': cc[i:i + 40]})
        ic = f.indent_chars()
        for i in range(0, len(ic), 100):
            out.append({'k': 'indent', 'tier': tier, 'file': fi, 'positions': ic[i:i + 100]})
        dl2 = f.decl_lines()
        for via in ('sim', 'file', 'http'):
            for noise in ('\x0c', '\x0b', '\x1c'):
                out.append({'k': 'compile', 'tier': tier, 'file': fi, 'via': via, 'cuts': dl2[1::3][:12], 'noise': noise})
        stride = 7 if tier == 'quick' else 3
        cuts = list(range(0, n, stride))
        for via in ('sim', 'file', 'http', 'filecap'):
            cc2 = cuts if via == 'sim' else cuts[::3]
            for i in range(0, len(cc2), 40):
                out.append({'k': 'compile', 'tier': tier, 'file': fi, 'via': via, 'cuts': cc2[i:i + 40]})
    return out


FOREIGN_BLOCKS = [['@@@'], ['FALSE TRUE NULL'], ['x OBJECT IDENTIFIER ::= { y 1 }'], ['"an unterminated string'], ['-- just a comment'], ['END'], ['BEGIN'],
                  ['184467440737095516150'], ['Bad-Name- OBJECT IDENTIFIER ::= { a 1 }'], ['TRAP-TYPE MACRO ::=', 'BEGIN'], ['zzz ::= CHOICE {'], ['EXPORTS a, b']]


def generate(rng, tier):
    fl = files(tier)
    fi = rng.randrange(len(fl))
    f = fl[fi]
    nl = f.nlines
    r = rng.random()
    if r < 0.8:
        ops = []
        for _ in range(rng.choice([1, 1, 2, 3])):
            o = rng.choice(['drop', 'dup', 'ins'])
            op = {'op': o, 'a': rng.randrange(nl), 'b': rng.choice([1, 1, 2, 5, 20])}
            if o == 'ins':
                op['text'] = rng.choice(FOREIGN_BLOCKS)
            ops.append(op)
        scn = {'k': 'blocks', 'tier': tier, 'file': fi, 'ops': ops, 'dialect': rng.choice(DIALECTS)}
        if rng.random() < 0.4:
            scn['cut'] = rng.randrange(1, len(f.text) + 40)
        return scn
    if r < 0.9:
        return {'k': 'compile', 'tier': tier, 'file': fi, 'via': rng.choice(['sim', 'file', 'http', 'filecap']), 'cuts': [rng.randrange(len(f.text) + 1) for _ in range(4)]}
    lo = rng.randrange(len(f.text))
    return {'k': 'prefix', 'tier': tier, 'file': fi, 'dialect': rng.choice(DIALECTS), 'lo': lo, 'hi': lo + 25}


def shrink(scn):
    k = scn['k']
    if k in ('prefix', 'replace') and scn['hi'] - scn['lo'] > 1:
        mid = (scn['lo'] + scn['hi']) // 2
        for lo, hi in ((scn['lo'], mid), (mid, scn['hi'])):
            s = copy.deepcopy(scn)
            s['lo'], s['hi'] = lo, hi
            yield s
    for key in ('lines', 'positions', 'cuts', 'spots', 'spans', 'preds'):
        if key in scn and len(scn[key]) > 1:
            h = len(scn[key]) // 2
            for part in (scn[key][:h], scn[key][h:]):
                s = copy.deepcopy(scn)
                s[key] = part
                yield s
    if k == 'blocks':
        for i in range(len(scn['ops'])):
            if len(scn['ops']) > 1:
                s = copy.deepcopy(scn)
                del s['ops'][i]
                yield s
        if scn.get('cut') is not None:
            s = copy.deepcopy(scn)
            s['cut'] = None
            yield s
        for i, op in enumerate(scn['ops']):
            if op['b'] > 1:
                s = copy.deepcopy(scn)
                s['ops'][i]['b'] = 1
                yield s
    if scn.get('file', 0) != 0 and k in ('blocks',):
        s = copy.deepcopy(scn)
        s['file'] = 0
        yield s


def size(scn):
    return {'kind': scn['k'], 'span': scn.get('hi', 0) - scn.get('lo', 0) if 'lo' in scn else len(scn.get('lines', scn.get('positions', scn.get('cuts', scn.get('ops', [])))))}


def describe(scn, out):
    return {'scenario': {k: v for k, v in scn.items() if k != '_world'}, 'evaluations_in_this_chunk': out.get('units'), 'faults': out.get('fired')}
