"""C08 - dependencies are followed transitively, in source order, and the
call always terminates.  compile-sim; history oracle."""
from verif.engines import compile_sim as cs
from verif.gen import basemibs
from verif.sim import core

PROPERTY = 'C08'
ENGINE = 'compile-sim'
LEVEL = 'exploration'
QUICK_S = 40
THOROUGH_S = 420
CHUNK = 40
HANG_IS_VIOLATION = True
REAL_COMPONENTS = ['pysmi.compiler.MibCompiler.compile', 'parser', 'SymtableCodeGen', 'JsonCodeGen', 'real-filesystem worlds (about 15 %): FileReader (plain, with .index), ZipReader, HttpReader (behind a simulated web server), AnyFileSearcher, StubSearcher, AnyFileBorrower, FileWriter - tapped in place', 'CallbackReader sources sharing one look-up function and real StubSearcher objects in a share of the simulated worlds']
STUB_COMPONENTS = ['sources (each holds a subset of the modules, healthy or defective copies, reader errors)', 'searchers', 'borrower readers', 'writer', 'web server + network of HTTP sources (simulated at urlopen: refuse / 404 / 500 / cut body / no Last-Modified)', 'errno and short-write outcomes of os.* calls in real-filesystem worlds (seeded rate)']
RULE = ('seeded import graphs (chains, diamonds, cycles, self imports, several modules per file, files holding only other modules) over 1-6 modules, '
        '1-3 sources each holding a subset; distinct = distinct (status multiset, options, faults, component counts, graph shape class); '
        'non-trivial = >=2 modules or a fault fired')
ASSUMPTIONS = ['termination is judged as bounded liveness: event budget 60+14*(modules+5)*(components+1) and a wall cap per world']


def judge(t):
    viol = []
    scn = t.scn
    R = t.R

    def V(clause, msg, **facts):
        viol.append({'clause': clause, 'key': '%s|%s' % (clause, facts.get('what', '')), 'facts': facts, 'message': msg})

    if isinstance(t.escaped, core.StepBudget):
        V('C08.4-terminates', 'compile() exceeded the event budget (%d events): %s' % (len(t.world.log), [c.brief() for c in t.calls[-4:]]), what='budget')
        return viol
    if isinstance(t.escaped, (RecursionError, MemoryError)) or (t.escaped is not None and scn.get('deep_chain')):
        # the call has to come back with a result for every import graph, however deep
        V('C08.4-terminates', 'compile() did not complete for an import graph of %d modules: %s' % (len(scn.get('modules', {})), type(t.escaped).__name__),
          what='did-not-complete', exception=type(t.escaped).__name__)
        return viol
    if t.escaped is not None or not isinstance(R, dict):
        t.world.probe('not-judged:compile-raised')
        return viol
    nsrc = len(scn.get('sources', ()))
    multi = bool(scn.get('files')) or bool(scn.get('alias'))
    # attempts: per lookup name, the sequence of (source, getData ok, parse ok, symtab all ok, trees)
    attempts = []
    for c in t.calls:
        if c.site == 'src.getData':
            attempts.append({'name': c.mib, 'src': c.comp, 'got': c.ok, 'ok': c.ok, 'trees': None, 'mods': [], 'parse_calls': 0,
                             'notfound': (not c.ok) and type(c.exc).__name__ == 'PySmiReaderFileNotFoundError'})
        elif c.site == 'parser.parse' and attempts:
            a = attempts[-1]
            a['parse_calls'] += 1
            a['ok'] = a['ok'] and c.ok and bool(c.res)
            a['trees'] = c.res if c.ok else None
        elif c.site == 'symtab.genCode' and attempts:
            a = attempts[-1]
            a['ok'] = a['ok'] and c.ok
            if c.ok:
                a['mods'].append((c.mib, c.kw.get('ast'), c.res[0]))
    byname = {}
    for a in attempts:
        byname.setdefault(a['name'], []).append(a)
    # 2. fetched and parsed at most once
    for name, al in sorted(byname.items()):
        srcs = [a['src'] for a in al]
        if len(srcs) != len(set(srcs)):
            V('C08.2-once', '%s fetched more than once from the same source: %s' % (name, srcs), what='refetched')
        # 3. source order: a prefix of the configured order, stopping at the first full success
        if srcs != list(range(len(srcs))):
            V('C08.3-source-order', 'sources for %s consulted in order %s' % (name, srcs), what='order')
        for i, a in enumerate(al):
            if a['ok'] and i != len(al) - 1:
                V('C08.3-source-order', '%s was supplied by source %d, yet source %d was consulted too' % (name, a['src'], al[i + 1]['src']), what='not-first')
        if not al[-1]['ok'] and len(al) < nsrc:
            V('C08.3-source-order', 'lookup of %s stopped after source %d although it did not supply the module and %d sources exist' % (name, al[-1]['src'], nsrc), what='gave-up-early')
    ngot = sum(1 for a in attempts if a['got'])
    nparse = len(t.by('parser.parse'))
    if nparse != ngot:
        V('C08.2-once', '%d parse calls for %d fetched texts' % (nparse, ngot), what='parse-count')
    symok = {}
    for c in t.by('symtab.genCode'):
        if c.ok:
            symok[c.mib] = symok.get(c.mib, 0) + 1
    if not multi:
        for m, n in sorted(symok.items()):
            if n > 1:
                V('C08.2-once', 'module %s went through the symbol-table stage %d times' % (m, n), what='module-twice')
    # 1. transitive closure looked up and reported
    aliased = set(a['name'] for a in attempts if a['ok'] for (m, _ast, _mi) in a['mods'] if m != a['name'])
    looked = set(byname)
    coparsed = set(m for a in attempts if a['ok'] for (m, _ast, _mi) in a['mods'])
    closure = list(scn['requested'])
    winners = {}
    for a in attempts:
        if a['ok']:
            for (m, ast, mi) in a['mods']:
                if m in winners:
                    continue          # the copy taken first stays (a later file holding the module again does not replace it)
                winners[m] = (a, ast)
                closure.extend(mi.imported)
    for n in sorted(set(closure)):
        if n not in R and n not in aliased:
            V('C08.1-closure', '%s is in the import closure but has no entry in the result' % n, what='not-reported')
        if n not in looked and n not in coparsed:
            V('C08.1-closure', '%s is in the import closure but was never looked up' % n, what='not-looked-up')
    # a module that was loaded (its file went through in full) is there: it is not reported missing
    for m, (a_, _ast) in sorted(winners.items()):
        if str(R.get(m)) == 'missing':
            V('C08.1-closure', 'module %s was loaded from source %d (in the file fetched for %s) yet it is reported missing' % (m, a_['src'], a_['name']), what='loaded-but-missing')
    # ground truth: the imports the text declares are the ones that get followed
    for a in attempts:
        for (m, ast, mi) in a['mods']:
            sp = scn['modules'].get(m)
            if sp is not None:
                from verif.gen import mibgen
                lost = [d for d in mibgen.declared_imports(sp) if d not in mi.imported]
                if lost:
                    V('C08.1-closure', 'module %s imports %s but the compiler did not register them' % (m, lost), what='import-lost')
    # 3b. the tree handed to the generator is the one parsed from the first supplying source
    by_mod = {}
    for i_, b in enumerate(attempts):
        if b['ok']:
            for (m, ast2, _mi) in b['mods']:
                by_mod.setdefault(m, []).append((i_, b, ast2))
    for c in t.by('codegen.genCode'):
        wnr = winners.get(c.mib)
        if wnr is None:
            continue
        a, ast = wnr
        if c.kw.get('ast') is not ast and c.kw.get('ast') != ast and not multi:
            V('C08.3-source-order', 'code for %s was generated from a tree that did not come from the first source supplying it (source %d)' % (c.mib, a['src']), what='wrong-tree')
        # 3d. a module that was looked up by its own name and supplied by a source stays that source's: a copy arriving
        # later in the same call as a by-stander of a file fetched for another module (from a source further down the list:
        # then "the first source that holds a module supplies the text" is unambiguous) does not replace the text that is compiled
        own = [x for x in by_mod.get(c.mib, ()) if x[1]['name'] == c.mib]
        if own:
            i0, b0, ast0 = own[0]
            later = [x[1] for x in by_mod.get(c.mib, ()) if x[0] > i0 and x[1]['src'] > b0['src']]
            if later and c.kw.get('ast') is not ast0 and c.kw.get('ast') != ast0:
                V('C08.3-source-order', 'source %d supplied %s when it was looked up; the code was generated from a copy that arrived later in the file fetched for %s from source %d' % (
                    b0['src'], c.mib, later[-1]['name'], later[-1]['src']), what='replaced-by-later-copy')
    # 3c. ground truth: with nothing injected, the first source that (by the scenario) holds a healthy copy supplies it
    if not t.world.fired and not scn.get('inject') and not scn.get('alias') and not scn.get('second') and t.second is None:
        for name, al in sorted(byname.items()):
            if name in scn.get('files', {}) and name in scn['modules'] and not scn.get('realfs'):
                # a file holding several modules: when all of them are healthy (in the spec and in every copy held by a
                # source) the first source holding the file supplies it as a whole
                mods_ = scn['files'][name]
                if not all(m_ in scn['modules'] and scn['modules'][m_].get('variant', 'ok') == 'ok' for m_ in mods_):
                    continue
                if any((h_.get('variants') or {}) or h_.get('o', 'ok') != 'ok' or 'text' in h_ for s_ in scn.get('sources', ()) for n_, h_ in s_.get('holds', {}).items() if n_ == name):
                    continue
                holders = [i for i, s_ in enumerate(scn.get('sources', ())) if name in s_.get('holds', {})]
                got = [a['src'] for a in al if a['ok']]
                if holders and got[:1] != holders[:1]:
                    V('C08.3-source-order', 'source %d is the first to hold the file of %s (modules %s, all healthy), but it was taken from %s' % (
                        holders[0], name, mods_, got[:1] or 'nowhere'), what='first-holder-ground-truth-file')
                continue
            if name not in scn['modules'] or scn['modules'][name].get('variant', 'ok') != 'ok' or name in scn.get('files', {}):
                continue
            if any(name in v_ for v_ in scn.get('files', {}).values()):
                continue
            want = None
            from verif.gen import mibgen as _mg
            for i, s_ in enumerate(scn.get('sources', ())):
                h = s_.get('holds', {}).get(name)
                if h is None or h.get('o', 'ok') != 'ok':
                    continue
                v_ = (h.get('variants') or {}).get(name, 'ok')
                if v_ in ('lex', 'lexpct', 'syntax', 'forbidden', 'cut', 'cutmacro', 'empty', 'dupsym', 'dupsymfwd', 'unkparent', 'augunk'):
                    continue          # this copy cannot be loaded: the next source is tried
                if v_ != 'ok':
                    want = None       # a copy whose defect may or may not stop loading: not judged
                    break
                want = i
                break
            if want is None:
                continue
            got = [a['src'] for a in al if a['ok']]
            if got[:1] != [want]:
                V('C08.3-source-order', 'source %d is the first to hold a healthy copy of %s, but the text came from %s' % (want, name, got[:1] or 'nowhere'),
                  what='first-holder-ground-truth')
    if any(sp.get('imports') and n in sp['imports'] for n, sp in scn['modules'].items()):
        t.world.probe('self-import')
    return viol


def run(scn):
    root = core.new_root('c08') if scn.get('realfs') else None
    try:
        return _run(scn, root)
    finally:
        if root:
            core.drop_root(root)


def _run(scn, root):
    t = cs.run_world(scn, root=root)
    viol = judge(t)
    if t.second is not None:
        for v in judge(t.second):
            v['key'] += '|second-call'
            v['facts']['call'] = 2
            v['message'] = 'second compile() on the same compiler: ' + v['message']
            viol.append(v)
    specs = scn['modules']
    cyc = any(d in specs and n in specs[d].get('imports', []) for n, sp in specs.items() for d in sp.get('imports', []) if d != n)
    if cyc:
        t.world.probe('import-cycle')
    if scn.get('files'):
        t.world.probe('multi-module-file')
    return cs.outcome(t, viol, extra_sig=[cyc, bool(scn.get('files')), len(specs)])


SWEEP_SET = {'quick': 'import chains of 300 and 1100 modules (deeper than the interpreter recursion limit), with diagnostic logging off and on; a 300-module import cycle',
             'thorough': 'same'}


def _chain(n, cycle=False):
    specs = {}
    for i in range(n):
        name = 'M%04d-MIB' % i
        nxt = ['M%04d-MIB' % (i + 1)] if i + 1 < n else (['M0000-MIB'] if cycle else [])
        specs[name] = {'name': name, 'imports': nxt, 'oidparent': None, 'arc': 10000 + i, 'identity': False, 'nobj': 0, 'arcs': [], 'compliance': False, 'variant': 'ok'}
    return specs


def sweep(tier):
    out = []
    for n, cyc, dbg in ((300, False, False), (1100, False, False), (1100, False, True), (300, True, True)):
        specs = _chain(n, cyc)
        scn = {'modules': specs, 'codegen': 'json', 'files': {}, 'requested': ['M0000-MIB'], 'sources': [{'holds': dict((m, {'o': 'ok'}) for m in specs), 'base': 'all', 'mtime': core.EPOCH0 - 50}],
               'searchers': [], 'borrowers': [], 'options': {}, 'deep_chain': n}
        if dbg:
            scn['debug'] = True
        out.append(scn)
    return out


def generate(rng, tier):
    scn = cs.gen_world(rng, tier, focus='C08')
    if rng.random() < 0.5:
        scn.pop('inject', None)
    if rng.random() < 0.5:
        # fault-free sources: every holder has a healthy copy
        for s in scn['sources']:
            for n in list(s['holds']):
                s['holds'][n] = {'o': 'ok'}
    return scn


shrink = cs.shrink_world
size = cs.size
describe = cs.describe
