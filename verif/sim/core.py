"""Simulator core: interposition on the OS/time seams, worlds, fault plans,
event log, virtual clock, baton-passing scheduler.

Everything pysmi can observe about the outside (filesystem calls, time, temp
names, directory order, host identity) goes through wrappers installed here.
A wrapper passes straight through unless a World is active *and* the path (or
fd) belongs to that world's scratch root *and* the call is the outermost
interposed call of its thread.  Then it is a log event, a scheduler yield
point and a fault point.
"""
import builtins
import errno as _errno
import hashlib
import io
import json
import os
import py_compile
import random
import shutil
import sys
import tempfile
import threading
import time
import types

EPOCH0 = 1600000000  # virtual clock origin (2020-09-13T12:26:40Z)


class SimKill(BaseException):
    """Injected process kill: not catchable by `except Exception`/OSError."""


class StepBudget(BaseException):
    """World exceeded its event budget (bounded liveness)."""


class WorldTimeout(BaseException):
    """Wall-clock cap of a world fired."""


# --------------------------------------------------------------------------
# real functions, captured before anything is patched
# --------------------------------------------------------------------------
R = types.SimpleNamespace(
    stat=os.stat, lstat=os.lstat, listdir=os.listdir, scandir=os.scandir,
    mkdir=os.mkdir, makedirs=os.makedirs, open=os.open, write=os.write,
    close=os.close, rename=os.rename, replace=os.replace, unlink=os.unlink,
    remove=os.remove, access=os.access, utime=os.utime, rmdir=os.rmdir,
    uname=os.uname, bopen=builtins.open, mkstemp=tempfile.mkstemp,
    pycompile=py_compile.compile, copy=shutil.copy, copyfile=shutil.copyfile, copy2=shutil.copy2,
    rmtree=shutil.rmtree,
    time=time.time, asctime=time.asctime, gmtime=time.gmtime,
    localtime=time.localtime, strftime=time.strftime, ctime=time.ctime,
    monotonic=time.monotonic, walk=os.walk,
)

_state = types.SimpleNamespace(world=None, installed=False)
_tls = threading.local()


def _depth():
    return getattr(_tls, 'depth', 0)


# --------------------------------------------------------------------------
# fault actions
# --------------------------------------------------------------------------
ERRNO = {n: getattr(_errno, n) for n in
         ('EIO', 'ENOSPC', 'EACCES', 'ENOENT', 'EEXIST', 'EMFILE', 'EXDEV',
          'EINTR', 'ENOTDIR', 'EISDIR', 'EROFS', 'EDQUOT', 'EPERM', 'EAGAIN', 'ESTALE', 'EBUSY', 'ENAMETOOLONG')}

# which actions make sense at which site (used by sweeps and seeded plans)
SITE_ACTIONS = {
    'os.stat': [('errno', 'EACCES'), ('errno', 'EIO'), ('vanish', None)],
    'os.listdir': [('errno', 'EACCES'), ('errno', 'EIO')],
    'os.scandir': [('errno', 'EACCES')],
    'os.makedirs': [('errno', 'EACCES'), ('errno', 'ENOSPC'), ('errno', 'EEXIST')],
    'os.mkdir': [('errno', 'EACCES'), ('errno', 'ENOSPC')],
    'mkstemp': [('errno', 'EACCES'), ('errno', 'ENOSPC'), ('errno', 'EMFILE'), ('errno', 'ESTALE')],
    # the "transient" family (EAGAIN, ESTALE as network filesystems report them) is what retry logic keys on
    'os.write': [('errno', 'EIO'), ('errno', 'ENOSPC'), ('errno', 'EDQUOT'), ('errno', 'EAGAIN'), ('errno', 'ESTALE'),
                 ('short', 0), ('short', 1), ('short', 'half'), ('short', 'n-1')],
    'os.close': [('errno', 'EIO'), ('errno', 'EDQUOT'), ('errno', 'ESTALE')],
    'os.rename': [('errno', 'EACCES'), ('errno', 'ENOSPC'), ('errno', 'EXDEV'), ('errno', 'ESTALE'), ('errno', 'EBUSY')],
    'os.unlink': [('errno', 'EACCES'), ('errno', 'EIO')],
    'os.access': [('false', None)],
    'os.utime': [('errno', 'EPERM')],
    'open': [('errno', 'EACCES'), ('errno', 'ENOENT'), ('errno', 'EMFILE'), ('errno', 'EIO'), ('vanish', None)],
    'file.read': [('errno', 'EIO')],
    # code that writes through file objects (open(), os.fdopen(), NamedTemporaryFile) instead of os.write()/os.close()
    'file.write': [('errno', 'EIO'), ('errno', 'ENOSPC'), ('errno', 'EDQUOT')],
    'file.close': [('errno', 'EIO'), ('errno', 'ENOSPC')],
    'py_compile': [('exc', 'PyCompileError'), ('exc', 'SyntaxError'),
                   ('exc', 'OSError'), ('exc', 'RuntimeError')],
    'shutil.copy': [('errno', 'EACCES'), ('errno', 'ENOSPC'), ('errno', 'EIO')],
}


def fault_kind(f):
    a = f['action']
    if a == 'errno':
        return 'errno:%s@%s' % (f['arg'], f['site'])
    if a == 'short':
        return 'short-write'
    if a == 'exc':
        return 'exc:%s@%s' % (f['arg'], f['site'])
    return '%s@%s' % (a, f['site'])


# --------------------------------------------------------------------------
# scheduler (only concurrent-writer worlds use it)
# --------------------------------------------------------------------------
class Scheduler(object):
    """Baton passing: real threads, exactly one runnable at a time; at each
    yield point the next thread is taken from `choices` (replay) or drawn
    from the PRNG.  The list of choices made is `trace`."""

    def __init__(self, seed=0, choices=None):
        self.rng = random.Random(seed)
        self.choices = list(choices) if choices is not None else None
        self.ci = 0
        self.trace = []
        self.cv = threading.Condition()
        self.turn = None
        self.alive = []
        self.names = {}
        self.errors = {}
        self.results = {}
        self.abort = False

    def _pick(self):
        cands = sorted(self.alive)
        if not cands:
            return None
        if self.choices is not None and self.ci < len(self.choices):
            c = self.choices[self.ci]
            self.ci += 1
            if c not in cands:
                c = cands[c % len(cands)] if isinstance(c, int) else cands[0]
        else:
            c = cands[self.rng.randrange(len(cands))]
        self.trace.append(c)
        return c

    def me(self):
        return getattr(_tls, 'tid', None)

    def yield_point(self):
        tid = self.me()
        if tid is None:
            return
        if self.abort:
            raise SimKill('world abandoned')
        with self.cv:
            nxt = self._pick()
            if nxt != tid:
                self.turn = nxt
                self.cv.notify_all()
                while self.turn != tid and not self.abort:
                    self.cv.wait()
                if self.abort:
                    raise SimKill('world abandoned')

    def _body(self, tid, fn):
        _tls.tid = tid
        _tls.depth = 0
        with self.cv:
            while self.turn != tid and not self.abort:
                self.cv.wait()
        try:
            if self.abort:
                raise SimKill('world abandoned')
            self.results[tid] = fn()
        except BaseException as e:  # noqa - recorded, judged by the oracle
            self.errors[tid] = e
        finally:
            with self.cv:
                self.alive.remove(tid)
                self.turn = self._pick()
                self.cv.notify_all()
            _tls.tid = None

    def run(self, fns):
        threads = []
        for tid, fn in enumerate(fns):
            self.alive.append(tid)
            t = threading.Thread(target=self._body, args=(tid, fn), daemon=True)
            threads.append(t)
        for t in threads:
            t.start()
        with self.cv:
            self.turn = self._pick()
            self.cv.notify_all()
        try:
            for t in threads:
                t.join()          # the world's wall cap (SIGALRM in this thread) bounds the wait
        finally:
            if any(t.is_alive() for t in threads):
                # the world is being abandoned: no thread of it may touch pysmi or the next world
                self.abort = True
                with self.cv:
                    self.cv.notify_all()
                for t in threads:
                    t.join(10)
        return self.results, self.errors


# --------------------------------------------------------------------------
# world
# --------------------------------------------------------------------------
class World(object):
    def __init__(self, root=None, faults=(), rate=None, clock=EPOCH0,
                 listing_seed=None, step_cap=20000):
        self.root = os.path.realpath(root) if root else None
        self.log = []
        self.seq = 0
        self.now = clock
        self.clock0 = clock
        self.op = -1
        self.counts = {}
        self.faults = [dict(f) for f in faults]
        self.rate = rate  # {'p':float,'seed':int,'sites':[...]} or None
        self.fired = {}
        self.fired_list = []
        self.probes = {}
        self.fds = {}
        self.tmpn = 0
        self.mutations = 0
        self.points = []
        self.listing_rng = random.Random(listing_seed) if listing_seed is not None else None
        self.on_event = None
        self.sched = None
        self.step_cap = step_cap
        self.killed = False
        self.uname = ('Linux', 'simhost', '0.0-sim', '#1', 'x86_64')
        self.user = 'simuser'

    # ---- activation -----------------------------------------------------
    def __enter__(self):
        if _state.world is not None:
            raise RuntimeError('a world is already active')
        _state.world = self
        return self

    def __exit__(self, *exc):
        _state.world = None
        for fd in list(self.fds):
            try:
                R.close(fd)
            except OSError:
                pass
        self.fds.clear()
        return False

    # ---- helpers --------------------------------------------------------
    def owns(self, path):
        if self.root is None:
            return False
        if isinstance(path, int):
            return path in self.fds
        try:
            p = os.fspath(path)
        except TypeError:
            return False
        if isinstance(p, bytes):
            p = os.fsdecode(p)
        p = os.path.abspath(p)
        return p == self.root or p.startswith(self.root + os.sep)

    def rel(self, path):
        if isinstance(path, int):
            return self.fds.get(path, '<fd>')
        p = os.fspath(path)
        if isinstance(p, bytes):
            p = os.fsdecode(p)
        p = os.path.abspath(p)
        if p == self.root:
            return '.'
        if p.startswith(self.root + os.sep):
            return p[len(self.root) + 1:]
        return '<outside>'

    def probe(self, name, n=1):
        self.probes[name] = self.probes.get(name, 0) + n

    def begin_op(self, index, what=''):
        self.op = index
        self.event('op.begin', str(index), what, 'ok')

    def end_op(self, outcome='ok'):
        self.event('op.end', str(self.op), '', outcome)

    def advance(self, dt):
        self.now += dt
        self.event('clock.advance', '', dt, 'ok')

    def event(self, site, subject, detail, outcome, payload=None):
        self.seq += 1
        tid = getattr(_tls, 'tid', None)
        ev = [self.seq, self.now, tid if tid is not None else 0, self.op, site, subject, detail, outcome, payload]
        self.log.append(ev)
        if self.seq > self.step_cap:
            raise StepBudget('event budget %d exceeded' % self.step_cap)
        return ev

    def stamp(self, path):
        try:
            R.utime(path, (self.now, self.now))
        except OSError:
            pass

    # ---- fault lookup ---------------------------------------------------
    def _match(self, site, nth):
        for f in self.faults:
            if f.get('used'):
                continue
            if f['site'] != site:
                continue
            fop = f.get('op')
            if fop is not None and fop != self.op:
                continue
            if f.get('nth', 0) != nth:
                continue
            f['used'] = True
            return f
        r = self.rate
        if r and r.get('p', 0) > 0 and site in r.get('sites', SITE_ACTIONS):
            rng = random.Random('%s:%s' % (r['seed'], self.seq))
            if rng.random() < r['p']:
                acts = SITE_ACTIONS.get(site)
                if acts:
                    allowed = r.get('actions')
                    if allowed:
                        acts = [a for a in acts if a[0] in allowed]
                    if r.get('not_args'):
                        acts = [a for a in acts if a[1] not in r['not_args']]
                    if acts:
                        a = acts[rng.randrange(len(acts))]
                        return {'op': self.op, 'site': site, 'nth': nth, 'action': a[0], 'arg': a[1], 'seeded': True}
        return None

    def point(self, site, subject):
        """Register an interposed call; return (nth, fault or None)."""
        key = (self.op, site)
        nth = self.counts.get(key, 0)
        self.counts[key] = nth + 1
        self.points.append((self.op, site, nth, subject))
        f = self._match(site, nth)
        if f is not None:
            k = fault_kind(f)
            self.fired[k] = self.fired.get(k, 0) + 1
            self.fired_list.append({k2: v for k2, v in f.items() if k2 not in ('used', 'seeded')})
        return nth, f

    def syscall(self, site, path, thunk, mutating=False, stamp=None, detail=''):
        """Run one outermost interposed call."""
        _tls.depth = _depth() + 1
        try:
            if self.sched is not None:
                self.sched.yield_point()
            subject = self.rel(path)
            nth, f = self.point(site, subject)
            if f is not None:
                act = f['action']
                if act == 'errno':
                    self.event(site, subject, detail, 'fault:errno:%s' % f['arg'])
                    raise OSError(ERRNO[f['arg']], os.strerror(ERRNO[f['arg']]) + ' [injected]', os.fspath(path) if not isinstance(path, int) else None)
                if act == 'kill':
                    self.event(site, subject, detail, 'fault:kill')
                    self.killed = True
                    raise SimKill('killed before %s' % site)
                if act == 'vanish':
                    try:
                        R.unlink(path)
                    except OSError:
                        pass
                    self.event(site, subject, detail, 'fault:vanish')
                    # fall through to the real call, which now fails naturally
                elif act == 'false':
                    self.event(site, subject, detail, 'fault:false')
                    return False
                elif act == 'exc':
                    self.event(site, subject, detail, 'fault:exc:%s' % f['arg'])
                    raise _make_exc(f['arg'], path)
                elif act == 'short':
                    self.event(site, subject, detail, 'fault:short:%s' % f['arg'])
                    return thunk(short=f['arg'])
                else:
                    raise RuntimeError('unknown fault action %r' % (act,))
            try:
                r = thunk()
            except OSError as e:
                self.event(site, subject, detail, 'raise:OSError:%s' % _errno.errorcode.get(e.errno, e.errno))
                raise
            except BaseException as e:
                self.event(site, subject, detail, 'raise:%s' % type(e).__name__)
                raise
            if mutating:
                self.mutations += 1
                if stamp is not None:
                    self.stamp(stamp)
            self.event(site, subject, detail, 'ok')
            return r
        finally:
            _tls.depth -= 1
            if self.on_event is not None and _depth() == 0:
                _tls.depth = 1
                try:
                    self.on_event(self)
                finally:
                    _tls.depth = 0

    # ---- fingerprints ---------------------------------------------------
    def fingerprints(self, extra=None):
        h_full = hashlib.sha256()
        h_har = hashlib.sha256()
        for ev in self.log:
            h_full.update(json.dumps(ev, sort_keys=True, default=str).encode())
            h_har.update(json.dumps(ev[:8], sort_keys=True, default=str).encode())
        if extra is not None:
            h_full.update(json.dumps(extra, sort_keys=True, default=str).encode())
        return h_full.hexdigest()[:32], h_har.hexdigest()[:32]

    def simulated_seconds(self):
        return self.now - self.clock0


def _make_exc(name, path):
    if name == 'PyCompileError':
        try:
            raise SyntaxError('injected')
        except SyntaxError:
            et, ev, _ = sys.exc_info()
        return py_compile.PyCompileError(et, ev, str(path))
    if name == 'SyntaxError':
        return SyntaxError('injected')
    if name == 'OSError':
        return OSError(_errno.EIO, 'injected', str(path))
    if name == 'RuntimeError':
        return RuntimeError('injected')
    if name == 'MemoryError':
        return MemoryError('injected')
    raise ValueError(name)


def active():
    return _state.world


# --------------------------------------------------------------------------
# wrappers
# --------------------------------------------------------------------------
def _live(path):
    w = _state.world
    if w is None or _depth():
        return None
    if not w.owns(path):
        return None
    return w


def _w_stat(path, *a, **k):
    w = _live(path) if not isinstance(path, int) else None
    if w is None:
        return R.stat(path, *a, **k)
    return w.syscall('os.stat', path, lambda: R.stat(path, *a, **k))


def _w_lstat(path, *a, **k):
    w = _live(path)
    if w is None:
        return R.lstat(path, *a, **k)
    return w.syscall('os.stat', path, lambda: R.lstat(path, *a, **k))


def _w_listdir(path='.'):
    w = _live(path)
    if w is None:
        return R.listdir(path)

    def thunk():
        names = sorted(R.listdir(path))
        if w.listing_rng is not None:
            w.listing_rng.shuffle(names)
        return names
    return w.syscall('os.listdir', path, thunk)


class _ScandirProxy(object):
    def __init__(self, entries):
        self._it = iter(entries)

    def __iter__(self):
        return self

    def __next__(self):
        return next(self._it)

    def __enter__(self):
        return self

    def __exit__(self, *a):
        return False

    def close(self):
        pass


def _w_scandir(path='.'):
    w = _live(path)
    if w is None:
        return R.scandir(path)

    def thunk():
        with R.scandir(path) as it:
            entries = sorted(it, key=lambda e: e.name)
        if w.listing_rng is not None:
            w.listing_rng.shuffle(entries)
        return _ScandirProxy(entries)
    return w.syscall('os.scandir', path, thunk)


def _w_mkdir(path, *a, **k):
    w = _live(path)
    if w is None:
        return R.mkdir(path, *a, **k)
    return w.syscall('os.mkdir', path, lambda: R.mkdir(path, *a, **k), mutating=True)


def _w_makedirs(path, *a, **k):
    w = _live(path)
    if w is None:
        return R.makedirs(path, *a, **k)
    return w.syscall('os.makedirs', path, lambda: R.makedirs(path, *a, **k), mutating=True)


def _w_open(path, flags, *a, **k):
    w = _live(path)
    if w is None:
        return R.open(path, flags, *a, **k)

    def thunk():
        fd = R.open(path, flags, *a, **k)
        w.fds[fd] = w.rel(path)
        if flags & (os.O_CREAT | os.O_TRUNC):
            w.stamp(path)
        return fd
    mut = bool(flags & (os.O_WRONLY | os.O_RDWR | os.O_CREAT | os.O_TRUNC))
    return w.syscall('os.open', path, thunk, mutating=mut)


def _w_write(fd, data):
    w = _state.world
    if w is None or _depth() or fd not in w.fds:
        return R.write(fd, data)
    n = len(data)

    def thunk(short=None):
        if short is None:
            return R.write(fd, data)
        if short == 'half':
            k = n // 2
        elif short == 'n-1':
            k = max(n - 1, 0)
        else:
            k = min(int(short), n)
        if k:
            R.write(fd, bytes(data)[:k])
        return k
    return w.syscall('os.write', fd, thunk, mutating=True, detail=n)


def _w_close(fd):
    w = _state.world
    if w is None or fd not in w.fds:
        return R.close(fd)
    if _depth():
        w.fds.pop(fd, None)
        return R.close(fd)
    rel = w.fds[fd]
    full = os.path.join(w.root, rel)

    def thunk():
        R.close(fd)
        w.fds.pop(fd, None)
        w.stamp(full)
    try:
        return w.syscall('os.close', fd, thunk, mutating=True)
    except OSError:
        # an injected close() failure still releases the descriptor (POSIX) -- and, as with a deferred write error
        # (quota, NFS), part of what was written never reached the file
        if fd in w.fds:
            w.fds.pop(fd, None)
            try:
                size = os.fstat(fd).st_size
                if size > 0:
                    os.ftruncate(fd, size // 2)
            except OSError:
                pass
            try:
                R.close(fd)
            except OSError:
                pass
        raise


def _w_rename(src, dst, *a, **k):
    w = _live(dst) or _live(src)
    if w is None:
        return R.rename(src, dst, *a, **k)
    return w.syscall('os.rename', dst, lambda: R.rename(src, dst, *a, **k), mutating=True,
                     stamp=dst, detail=w.rel(src))


def _w_replace(src, dst, *a, **k):
    w = _live(dst) or _live(src)
    if w is None:
        return R.replace(src, dst, *a, **k)
    return w.syscall('os.rename', dst, lambda: R.replace(src, dst, *a, **k), mutating=True,
                     stamp=dst, detail=w.rel(src))


def _w_unlink(path, *a, **k):
    w = _live(path)
    if w is None:
        return R.unlink(path, *a, **k)
    return w.syscall('os.unlink', path, lambda: R.unlink(path, *a, **k), mutating=True)


def _w_rmdir(path, *a, **k):
    w = _live(path)
    if w is None:
        return R.rmdir(path, *a, **k)
    return w.syscall('os.rmdir', path, lambda: R.rmdir(path, *a, **k), mutating=True)


def _w_access(path, mode, *a, **k):
    w = _live(path)
    if w is None:
        return R.access(path, mode, *a, **k)
    return w.syscall('os.access', path, lambda: R.access(path, mode, *a, **k))


def _w_utime(path, *a, **k):
    w = _live(path) if not isinstance(path, int) else None
    if w is None:
        return R.utime(path, *a, **k)
    return w.syscall('os.utime', path, lambda: R.utime(path, *a, **k), mutating=True)


class FileProxy(object):
    """Thin proxy over a real file object opened inside the scratch root;
    read() is a fault point, close() of a written file stamps the mtime."""

    def __init__(self, world, f, path, writing):
        self.__dict__['_w'] = world
        self.__dict__['_f'] = f
        self.__dict__['_p'] = path
        self.__dict__['_writing'] = writing

    def __getattr__(self, name):
        return getattr(self._f, name)

    def __setattr__(self, name, value):
        setattr(self._f, name, value)

    def __iter__(self):
        return iter(self._f)

    def __enter__(self):
        self._f.__enter__()
        return self

    def __exit__(self, *a):
        return self.close()

    def _pt(self, site, thunk, mutating=False):
        w = self._w
        if _state.world is not w or _depth():
            return thunk()
        return w.syscall(site, self._p, thunk, mutating=mutating)

    def read(self, *a):
        return self._pt('file.read', lambda: self._f.read(*a))

    def readlines(self, *a):
        return self._pt('file.read', lambda: self._f.readlines(*a))

    def readline(self, *a):
        return self._f.readline(*a)

    def seekable(self):
        return self._f.seekable()

    def write(self, data):
        return self._pt('file.write', lambda: self._f.write(data), mutating=True)

    def close(self):
        w = self._w
        fdn = self.__dict__.get('_fd')

        def real_close():
            r_ = self._f.close()
            if fdn is not None:
                w.fds.pop(fdn, None)
            if self._writing and _state.world is w:
                w.stamp(self._p)
            return r_
        if not self._writing or self._f.closed or _state.world is not w or _depth():
            return real_close()
        try:
            return w.syscall('file.close', self._p, real_close, mutating=True)
        except OSError:
            # an injected failure of close(): the descriptor is released all the same, and (as with a deferred write
            # error) part of what was written never reached the file
            if not self._f.closed:
                try:
                    self._f.flush()
                except (OSError, ValueError):
                    pass
                try:
                    size = os.fstat(self._f.fileno()).st_size
                    if size > 0:
                        os.ftruncate(self._f.fileno(), size // 2)
                except (OSError, ValueError):
                    pass
                try:
                    self._f.close()
                except OSError:
                    pass
                if fdn is not None:
                    w.fds.pop(fdn, None)
            raise


def _w_bopen(file, mode='r', *a, **k):
    if isinstance(file, int):
        w0 = _state.world
        if w0 is None or file not in w0.fds:
            return R.bopen(file, mode, *a, **k)
        # a file object around a descriptor opened inside the world (os.fdopen, open(fd, ...)): its writes and its close
        # are fault points like os.write / os.close
        fp_ = FileProxy(w0, R.bopen(file, mode, *a, **k), os.path.join(w0.root, w0.fds[file]), any(c in mode for c in 'wax+'))
        if k.get('closefd', True):
            fp_.__dict__['_fd'] = file
        return fp_
    w = _live(file)
    if w is None:
        return R.bopen(file, mode, *a, **k)
    writing = any(c in mode for c in 'wax+')

    def thunk():
        fp_ = FileProxy(w, R.bopen(file, mode, *a, **k), os.path.abspath(os.fspath(file)), writing)
        if writing:
            w.stamp(os.path.abspath(os.fspath(file)))
        return fp_
    return w.syscall('open', file, thunk, mutating=writing, detail=mode)


def _w_mkstemp(suffix=None, prefix=None, dir=None, text=False):
    w = _live(dir) if dir is not None else None
    if w is None:
        return R.mkstemp(suffix, prefix, dir, text)

    def thunk():
        while True:
            w.tmpn += 1
            name = os.path.join(os.fspath(dir), 'simtmp%04d' % w.tmpn)
            try:
                fd = R.open(name, os.O_RDWR | os.O_CREAT | os.O_EXCL | getattr(os, 'O_CLOEXEC', 0), 0o600)
            except FileExistsError:
                continue
            w.fds[fd] = w.rel(name)
            w.stamp(name)           # a file that is never closed (process kill) must not carry the real clock either
            return fd, os.path.abspath(name)
    return w.syscall('mkstemp', dir, thunk, mutating=True)


class _CandidateNames(object):
    """tempfile's name sequence: deterministic ('simtmp<n>' from the world's counter) while a world is active, so that
    NamedTemporaryFile / mkdtemp / TemporaryDirectory used by the code under test do not make runs differ"""

    def __init__(self, real):
        self._real = real

    def __iter__(self):
        return self

    def __next__(self):
        w = _state.world
        if w is None:
            return next(self._real)
        w.tmpn += 1          # (also when called from inside an interposed open(): NamedTemporaryFile draws its name there)
        return 'simtmp%04d' % w.tmpn


_real_candidate_names = tempfile._get_candidate_names


def _w_candidate_names():
    return _CandidateNames(_real_candidate_names())


def _w_pycompile(file, *a, **k):
    w = _live(file)
    if w is None:
        return R.pycompile(file, *a, **k)
    return w.syscall('py_compile', file, lambda: R.pycompile(file, *a, **k), mutating=True)


def _w_copy(src, dst, *a, **k):
    w = _live(dst) or _live(src)
    if w is None:
        return R.copy(src, dst, *a, **k)

    def thunk():
        r = R.copy(src, dst, *a, **k)
        target = dst
        if os.path.isdir(dst):
            target = os.path.join(dst, os.path.basename(src))
        w.stamp(target)
        return r
    return w.syscall('shutil.copy', dst, thunk, mutating=True, detail=w.rel(src))


def _mk_copy(realname):
    def wrapper(src, dst, *a, **k):
        real = getattr(R, realname)
        w = _live(dst) or _live(src)
        if w is None:
            return real(src, dst, *a, **k)

        def thunk():
            r = real(src, dst, *a, **k)
            target = dst
            if os.path.isdir(dst):
                target = os.path.join(dst, os.path.basename(src))
            if realname != 'copy2':
                w.stamp(target)
            return r
        return w.syscall('shutil.copy', dst, thunk, mutating=True, detail=w.rel(src))
    return wrapper


_w_copy2 = _mk_copy('copy2')
_w_copyfile = _mk_copy('copyfile')


# ---- time / identity ------------------------------------------------------
def _w_time():
    w = _state.world
    if w is None:
        return R.time()
    return float(w.now)


def _w_asctime(*a):
    w = _state.world
    if w is None or a:
        return R.asctime(*a)
    return R.asctime(R.gmtime(w.now))


def _w_ctime(*a):
    w = _state.world
    if w is None or (a and a[0] is not None):
        return R.ctime(*a)
    return R.ctime(w.now)


def _w_gmtime(*a):
    w = _state.world
    if w is None or (a and a[0] is not None):
        return R.gmtime(*a)
    return R.gmtime(w.now)


def _w_localtime(*a):
    w = _state.world
    if w is None or (a and a[0] is not None):
        return R.localtime(*a)
    return R.localtime(w.now)


def _w_strftime(fmt, *a):
    w = _state.world
    if w is None or a:
        return R.strftime(fmt, *a)
    return R.strftime(fmt, R.gmtime(w.now))


def _w_uname():
    w = _state.world
    if w is None:
        return R.uname()
    return os.uname_result(w.uname)


def _sim_getpwuid(uid):
    w = _state.world
    if w is None:
        import pwd
        return pwd.getpwuid(uid)
    return (w.user, 'x', uid, uid, '', '/home/' + w.user, '/bin/sh')


def install():
    if _state.installed:
        return
    _state.installed = True
    os.stat = _w_stat
    os.lstat = _w_lstat
    os.listdir = _w_listdir
    os.scandir = _w_scandir
    os.mkdir = _w_mkdir
    os.makedirs = _w_makedirs
    os.open = _w_open
    os.write = _w_write
    os.close = _w_close
    os.rename = _w_rename
    os.replace = _w_replace
    os.unlink = _w_unlink
    os.remove = _w_unlink
    os.rmdir = _w_rmdir
    os.access = _w_access
    os.utime = _w_utime
    os.uname = _w_uname
    builtins.open = _w_bopen
    io.open = _w_bopen
    tempfile.mkstemp = _w_mkstemp
    tempfile._get_candidate_names = _w_candidate_names
    shutil.copy2 = _w_copy2
    shutil.copyfile = _w_copyfile
    py_compile.compile = _w_pycompile
    shutil.copy = _w_copy
    time.time = _w_time
    time.asctime = _w_asctime
    time.ctime = _w_ctime
    time.gmtime = _w_gmtime
    time.localtime = _w_localtime
    time.strftime = _w_strftime


def patch_pysmi():
    """Seams that are module globals inside pysmi (from-imports)."""
    import pysmi.compiler
    pysmi.compiler.getpwuid = _sim_getpwuid


# --------------------------------------------------------------------------
# scratch roots and snapshots (always through the real functions)
# --------------------------------------------------------------------------
def scratch_base():
    base = os.environ.get('VERIF_SCRATCH')
    if not base:
        base = '/dev/shm' if os.path.isdir('/dev/shm') and os.access('/dev/shm', os.W_OK) else tempfile.gettempdir()
    base = os.path.join(base, 'pysmi-verif-%d' % os.getuid())
    run = os.environ.get('VERIF_SCRATCH_RUN')
    if run:
        base = os.path.join(base, run)
    return base


def begin_run():
    """Called by the parent of a pool: one scratch directory per run, leftovers of dead runs swept."""
    os.environ.pop('VERIF_SCRATCH_RUN', None)
    top = scratch_base()
    try:
        for d in R.listdir(top):
            if d.startswith('run') or d.startswith('p'):
                pid = d[3:] if d.startswith('run') else d[1:]
                if pid.isdigit() and not os.path.exists('/proc/%d' % int(pid)):
                    R.rmtree(os.path.join(top, d), ignore_errors=True)
    except OSError:
        pass
    os.environ['VERIF_SCRATCH_RUN'] = 'run%07d' % os.getpid()
    return scratch_base()


def end_run():
    if os.environ.get('VERIF_SCRATCH_RUN') == 'run%07d' % os.getpid():
        R.rmtree(scratch_base(), ignore_errors=True)


_rootn = [0]


def new_root(tag='w'):
    base = os.path.join(scratch_base(), 'p%07d' % os.getpid())
    _rootn[0] += 1
    path = os.path.join(base, '%s%06d' % (tag, _rootn[0] % 1000000))
    if os.path.isdir(path):
        R.rmtree(path, ignore_errors=True)
    R.makedirs(path)
    return os.path.realpath(path)


def drop_root(path):
    R.rmtree(path, ignore_errors=True)


def drop_process_scratch():
    R.rmtree(os.path.join(scratch_base(), 'p%07d' % os.getpid()), ignore_errors=True)


def snapshot(path, with_mtime=True, scrub=None):
    """relpath -> ('d',) | ('f', size, sha1, mtime). Real calls only."""
    out = {}
    path = os.path.abspath(path)
    _tls.depth = _depth() + 1
    try:
        if not os.path.lexists(path):
            return out
        for dirpath, dirnames, filenames in R.walk(path):
            dirnames.sort()
            for d in dirnames:
                out[os.path.relpath(os.path.join(dirpath, d), path)] = ('d',)
            for f in sorted(filenames):
                full = os.path.join(dirpath, f)
                try:
                    with R.bopen(full, 'rb') as fp:
                        data = fp.read()
                    st = R.stat(full)
                except OSError:
                    out[os.path.relpath(full, path)] = ('?',)
                    continue
                if scrub:
                    data = data.replace(scrub.encode(), b'<ROOT>')
                rec = ('f', len(data), hashlib.sha1(data).hexdigest())
                if with_mtime:
                    rec += (int(st.st_mtime),)
                out[os.path.relpath(full, path)] = rec
    finally:
        _tls.depth -= 1
    return out


def read_bytes(path):
    _tls.depth = _depth() + 1
    try:
        with R.bopen(path, 'rb') as fp:
            return fp.read()
    except OSError:
        return None
    finally:
        _tls.depth -= 1


class unhooked(object):
    """Context manager: harness filesystem work that must not be events."""

    def __enter__(self):
        _tls.depth = _depth() + 1

    def __exit__(self, *a):
        _tls.depth -= 1
        return False


class partitioned_network(object):
    """No packet leaves the process: connect()/getaddrinfo()/create_connection()
    fail with OSError; attempts are counted in .attempts."""

    def __init__(self):
        self.attempts = 0

    def _fail(self, *a, **k):
        self.attempts += 1
        raise OSError(_errno.ENETUNREACH, 'network is partitioned in this simulation')

    def __enter__(self):
        import socket
        self._s = socket
        self._saved = (socket.socket.connect, socket.socket.connect_ex, socket.create_connection, socket.getaddrinfo, socket.getdefaulttimeout())
        me = self
        socket.socket.connect = lambda sock, *a, **k: me._fail()
        socket.socket.connect_ex = lambda sock, *a, **k: me._fail()
        socket.create_connection = self._fail
        socket.getaddrinfo = self._fail
        return self

    def __exit__(self, *a):
        s = self._s
        s.socket.connect, s.socket.connect_ex, s.create_connection, s.getaddrinfo = self._saved[:4]
        s.setdefaulttimeout(self._saved[4])
        return False
