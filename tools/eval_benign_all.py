#!/usr/bin/env python3
"""Run every check that has not been run yet against each property-preserving change (directory with patch.diff, meta.json and
an eval_before.json naming the checks already run).  Record: <dir>/eval_all.json.  Any non-zero exit is an alarm to triage.
usage: eval_benign_all.py [-P 2] [--budget 35] [--only ID,ID] <parent-dir>..."""
import argparse
import json
import os
import subprocess
import sys
from concurrent.futures import ThreadPoolExecutor

HERE = os.path.dirname(os.path.abspath(__file__))
VERIF = os.environ.get('EVAL_VERIF_DIR', os.path.dirname(HERE))
ALL = 'C07 C08 C09 C10 C11 C12 C13 C14 C18 C19 C20'.split()


def one(d, budget):
    done = set()
    for f in ('eval_before.json', 'eval_after.json'):
        p = os.path.join(d, f)
        if os.path.isfile(p):
            done.update(json.load(open(p)).get('checks', {}))
    rest = [c for c in ALL if c not in done]
    out = os.path.join(d, 'eval_all.json')
    if not rest:
        return d, {}
    subprocess.run([sys.executable, os.path.join(HERE, 'eval_seeded.py'), d, '--skip-tests', '--budget', str(budget), '--keep-json', out, '--checks', ','.join(rest)],
                   capture_output=True, text=True, env=dict(os.environ, EVAL_VERIF_DIR=VERIF))
    try:
        return d, json.load(open(out))
    except Exception as e:  # noqa
        return d, {'error': str(e)}


def main():
    ap = argparse.ArgumentParser()
    ap.add_argument('dirs', nargs='+')
    ap.add_argument('--budget', default='35')
    ap.add_argument('--only', default='')
    ap.add_argument('-P', type=int, default=2)
    a = ap.parse_args()
    only = set(x for x in a.only.split(',') if x)
    todo = []
    for parent in a.dirs:
        for n in sorted(os.listdir(parent)):
            d = os.path.join(parent, n)
            if os.path.isfile(os.path.join(d, 'patch.diff')) and (not only or n in only):
                todo.append(os.path.realpath(d))
    with ThreadPoolExecutor(a.P) as ex:
        for d, ev in ex.map(lambda d: one(d, a.budget), todo):
            rcs = {k: v['rc'] for k, v in ev.get('checks', {}).items()}
            print(os.path.basename(d), rcs, 'ALARM' if any(rcs.values()) else 'quiet', ev.get('error', ''), flush=True)
            for k, v in ev.get('checks', {}).items():
                if v['rc']:
                    for l in (v.get('first') or [])[:2] + (v.get('harness') or [])[:2]:
                        print('    ', k, l[:260], flush=True)


if __name__ == '__main__':
    main()
