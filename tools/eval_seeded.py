#!/usr/bin/env python3
"""Evaluate a seeded change (directory with patch.diff, demo.py, meta.json).

Confirms in a scratch worktree of /repo (outside /repo and /verif) that
  - demo.py passes on the unchanged tree and fails with the patch,
  - the pinned test-suite still passes with the patch,
then runs the given checks against the patched worktree (VERIF_REPO points the
checks at it, so /repo itself is never modified) and reports which of them
raise a VIOLATION.  The worktree is removed afterwards.

usage: eval_seeded.py <seeded-dir> [--checks C07,C09] [--budget 40] [--keep-json out.json]
"""
import argparse
import json
import os
import re
import shutil
import subprocess
import sys
import tempfile

PY = '/venv/bin/python'


def sh(cmd, cwd=None, env=None, timeout=1800):
    p = subprocess.run(cmd, cwd=cwd, env=env, capture_output=True, text=True, timeout=timeout)
    return p.returncode, p.stdout + p.stderr


def main():
    ap = argparse.ArgumentParser()
    ap.add_argument('dir')
    ap.add_argument('--checks', default=None)
    ap.add_argument('--budget', default='40')
    ap.add_argument('--seed', default='1')
    ap.add_argument('--keep-json', default=None)
    ap.add_argument('--skip-tests', action='store_true', help='regression mode: do not re-run the pinned test-suite')
    a = ap.parse_args()
    d = os.path.abspath(a.dir)
    meta = json.load(open(os.path.join(d, 'meta.json')))
    prop = meta['property']
    checks = (a.checks or prop).split(',')
    wt = tempfile.mkdtemp(prefix='ev_%s_' % os.path.basename(d), dir='/tmp')
    os.rmdir(wt)
    res = {'dir': d, 'property': prop, 'summary': meta.get('summary')}
    try:
        rc, out = sh(['git', '-C', '/repo', 'worktree', 'add', '-q', '--detach', wt, 'HEAD'])
        if rc:
            print(out)
            return 2
        env = dict(os.environ, PYTHONPATH=wt, PYTHONDONTWRITEBYTECODE='1')
        rc0, o0 = sh([PY, '-B', os.path.join(d, 'demo.py'), wt], cwd=d, env=env, timeout=600)
        res['demo_unpatched_rc'] = rc0
        rc, out = sh(['git', 'apply', os.path.join(d, 'patch.diff')], cwd=wt)
        res['patch_applies'] = rc == 0
        if rc:
            res['apply_error'] = out[-500:]
        else:
            rc1, o1 = sh([PY, '-B', os.path.join(d, 'demo.py'), wt], cwd=d, env=env, timeout=600)
            res['demo_patched_rc'] = rc1
            res['demo_patched_tail'] = o1[-300:]
            rct, ot = (0, '') if a.skip_tests else sh([PY, '-m', 'pytest', '-q', '-p', 'no:cacheprovider', '-n', '8', '--continue-on-collection-errors'], cwd=wt, env=env, timeout=1200)
            m = re.search(r'(\d+) passed', ot)
            res['tests_passed'] = int(m.group(1)) if m else 0
            res['tests_failed'] = bool(re.search(r'\d+ failed', ot))
            res['checks'] = {}
            for c in checks:
                cenv = dict(os.environ, VERIF_REPO=wt, VERIF_SEED=a.seed, VERIF_OUT=wt + '_out')
                cenv.pop('PYTHONPATH', None)
                rcc, oc = sh([PY, '-B', '-m', 'verif', 'check', c, '--tier', 'quick', '--budget', a.budget], cwd=os.environ.get('EVAL_VERIF_DIR', '/verif'), env=cenv, timeout=3600)
                v = [l for l in oc.splitlines() if l.startswith('violation')]
                res['checks'][c] = {'rc': rcc, 'violation_classes': len(v), 'first': [x[:300] for x in v[:3]],
                                    'harness': [l[:400] for l in oc.splitlines() if 'HARNESS' in l][:2]}
        print(json.dumps(res, indent=1))
        if a.keep_json:
            json.dump(res, open(a.keep_json, 'w'), indent=1)
    finally:
        subprocess.run(['git', '-C', '/repo', 'worktree', 'remove', '--force', wt], capture_output=True)
        shutil.rmtree(wt, ignore_errors=True)
        shutil.rmtree(wt + '_out', ignore_errors=True)
    return 0


if __name__ == '__main__':
    sys.exit(main())
