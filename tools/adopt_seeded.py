#!/usr/bin/env python3
"""Copy a confirmed seeded change into /verif/seeded/<id>/ with an evaluation record.
usage: adopt_seeded.py <src-dir> <eval.json> [note]"""
import json
import os
import shutil
import sys

src, evj = sys.argv[1:3]
note = sys.argv[3] if len(sys.argv) > 3 else ''
ev = json.load(open(evj))
sid = os.path.basename(src.rstrip('/'))
ok = ev.get('demo_unpatched_rc') == 0 and ev.get('demo_patched_rc') == 1 and ev.get('tests_passed') == 86 and not ev.get('tests_failed') and ev.get('patch_applies')
if not ok:
    print('NOT CONFIRMED', sid, {k: ev.get(k) for k in ('demo_unpatched_rc', 'demo_patched_rc', 'tests_passed', 'tests_failed', 'patch_applies')})
    sys.exit(1)
dst = os.path.join('/verif/seeded', sid)
os.makedirs(dst, exist_ok=True)
for f in ('patch.diff', 'demo.py'):
    shutil.copy(os.path.join(src, f), os.path.join(dst, f))
meta = json.load(open(os.path.join(src, 'meta.json')))
meta['breaks_property'] = meta.get('property')
meta['origin'] = 'written by an independent sub-agent given only the property text and a scratch worktree'
meta['confirmed'] = {
    'how': 'tools/eval_seeded.py in a scratch worktree of /repo HEAD: demo.py on the unchanged tree, git apply patch.diff, demo.py again, pinned test-suite, then the checks with VERIF_REPO pointing at the patched worktree',
    'demo_unchanged_exit': ev['demo_unpatched_rc'], 'demo_patched_exit': ev['demo_patched_rc'], 'tests_passed_with_patch': ev['tests_passed'],
}
meta['checks_run'] = {k: {'exit': v['rc'], 'violation_classes': v['violation_classes'], 'first_violation': (v['first'] or [''])[0][:300]} for k, v in ev.get('checks', {}).items()}
meta['caught_by'] = sorted(k for k, v in ev.get('checks', {}).items() if v['rc'] == 1 and v['violation_classes'] > 0)
if note:
    meta['note'] = note
json.dump(meta, open(os.path.join(dst, 'meta.json'), 'w'), indent=1)
print('adopted', sid, 'caught_by', meta['caught_by'])
