#!/bin/bash
# soak: run the given checks with several seeds; print one summary line per run
# usage: soak.sh "<props>" "<seeds>" <budget_s> [tier]
props=${1:-"C07 C08 C09 C10 C13 C14 C19"}
seeds=${2:-"1 2 3"}
budget=${3:-60}
tier=${4:-quick}
for s in $seeds; do
  for p in $props; do
    out=$(VERIF_SEED=$s /venv/bin/python -B -m verif check $p --tier $tier --budget $budget 2>&1)
    rc=$?
    echo "== $p seed=$s rc=$rc $(echo "$out" | grep -c '^VIOLATION') violations; $(echo "$out" | grep '^evidence' | cut -c1-160)"
    echo "$out" | grep -E '^(violation|HARNESS|KNOWN)' | cut -c1-400
  done
done
