#!/usr/bin/env python3
"""Re-evaluate every kept seeded change against the checks as they are now.

For each /verif/seeded/<id>/ runs tools/eval_seeded.py --skip-tests with the check of the
property the change breaks (plus any check named in meta.caught_by) and prints one line per
change; the summary goes to the file given with --out (JSON).  Runs P evaluations at a time.

usage: regress_seeded.py [--only C07,C11-2] [--budget 40] [-P 2] [--out regress.json]
"""
import argparse
import json
import os
import subprocess
import sys
from concurrent.futures import ThreadPoolExecutor

HERE = os.path.dirname(os.path.abspath(__file__))
VERIF = os.environ.get('EVAL_VERIF_DIR', os.path.dirname(HERE))


def one(sid, budget, seed):
    d = os.path.join(VERIF, 'seeded', sid)
    meta = json.load(open(os.path.join(d, 'meta.json')))
    checks = sorted(set([meta['property']] + list(meta.get('caught_by') or [])))
    out = '/tmp/regress_%s_%d.json' % (sid, os.getpid())
    env = dict(os.environ, EVAL_VERIF_DIR=VERIF)
    p = subprocess.run([sys.executable, os.path.join(HERE, 'eval_seeded.py'), d, '--skip-tests', '--checks', ','.join(checks),
                        '--budget', str(budget), '--seed', str(seed), '--keep-json', out], capture_output=True, text=True, env=env)
    try:
        ev = json.load(open(out))
        os.unlink(out)
    except Exception:
        return sid, {'error': (p.stdout + p.stderr)[-400:]}
    r = {'applies': ev.get('patch_applies'), 'demo': (ev.get('demo_unpatched_rc'), ev.get('demo_patched_rc')),
         'caught_by': sorted(k for k, v in ev.get('checks', {}).items() if v['rc'] == 1 and v['violation_classes'] > 0),
         'rc': {k: v['rc'] for k, v in ev.get('checks', {}).items()},
         'first': {k: (v['first'] or [''])[0][:200] for k, v in ev.get('checks', {}).items()},
         'harness': {k: v['harness'] for k, v in ev.get('checks', {}).items() if v['harness']}}
    return sid, r


def main():
    ap = argparse.ArgumentParser()
    ap.add_argument('--only', default=None)
    ap.add_argument('--budget', default='40')
    ap.add_argument('--seed', default='1')
    ap.add_argument('-P', type=int, default=2)
    ap.add_argument('--out', default='regress.json')
    a = ap.parse_args()
    ids = sorted(os.listdir(os.path.join(VERIF, 'seeded')))
    # changes whose premise was removed by a later repair of /repo are kept for the record but not re-evaluated
    ids = [i for i in ids if not json.load(open(os.path.join(VERIF, 'seeded', i, 'meta.json'))).get('superseded')]
    if a.only:
        want = a.only.split(',')
        ids = [i for i in ids if i in want or i.split('-')[0] in want]
    res = {}
    with ThreadPoolExecutor(a.P) as ex:
        for sid, r in ex.map(lambda s: one(s, a.budget, a.seed), ids):
            res[sid] = r
            print(sid, 'caught_by=%s' % r.get('caught_by'), 'applies=%s demo=%s' % (r.get('applies'), r.get('demo')), r.get('error', ''), r.get('harness', ''), flush=True)
            json.dump(res, open(a.out, 'w'), indent=1)
    missed = [s for s, r in res.items() if not r.get('caught_by')]
    print('TOTAL', len(res), 'missed', missed)


if __name__ == '__main__':
    main()
