#!/usr/bin/env python3
"""Adopt a round of evaluated seeded changes into /verif/seeded/<id>/ (patch.diff, demo.py, meta.json with the
evaluation records before and after widening).  usage: adopt_round.py <round-tag> <out_dir>..."""
import json
import os
import shutil
import sys

tag = sys.argv[1]
rows = []
for parent in sys.argv[2:]:
    for n in sorted(os.listdir(parent)):
        d = os.path.join(parent, n)
        if not os.path.isfile(os.path.join(d, 'eval_before.json')):
            continue
        b = json.load(open(os.path.join(d, 'eval_before.json')))
        a = json.load(open(os.path.join(d, 'eval_after.json'))) if os.path.isfile(os.path.join(d, 'eval_after.json')) else None
        ok = b.get('demo_unpatched_rc') == 0 and b.get('demo_patched_rc') == 1 and b.get('tests_passed') == 86 and not b.get('tests_failed') and b.get('patch_applies')
        if not ok:
            print('NOT CONFIRMED', n, {k: b.get(k) for k in ('demo_unpatched_rc', 'demo_patched_rc', 'tests_passed', 'tests_failed', 'patch_applies')})
            continue
        dst = os.path.join('/verif/seeded', n)
        os.makedirs(dst, exist_ok=True)
        for f in ('patch.diff', 'demo.py'):
            shutil.copy(os.path.join(d, f), os.path.join(dst, f))
        meta = json.load(open(os.path.join(d, 'meta.json')))
        meta['breaks_property'] = meta.get('property')
        meta['round'] = tag
        meta['origin'] = 'written by an independent sub-agent given only the property text and a scratch worktree'
        meta['confirmed'] = {'how': 'tools/eval_seeded.py in a scratch worktree of /repo HEAD: demo.py on the unchanged tree, git apply patch.diff, demo.py again, pinned test-suite, then the checks with VERIF_REPO pointing at the patched worktree',
                             'demo_unchanged_exit': b['demo_unpatched_rc'], 'demo_patched_exit': b['demo_patched_rc'], 'tests_passed_with_patch': b['tests_passed']}

        def rec(ev):
            return {k: {'exit': v['rc'], 'violation_classes': v['violation_classes'], 'first_violation': (v['first'] or [''])[0][:300]} for k, v in ev.get('checks', {}).items()}

        def caught(ev):
            return sorted(k for k, v in ev.get('checks', {}).items() if v['rc'] == 1 and v['violation_classes'] > 0)
        meta['checks_run_before_widening'] = rec(b)
        meta['caught_before_widening'] = caught(b)
        last = a or b
        meta['checks_run'] = rec(last)
        meta['caught_by'] = caught(last)
        json.dump(meta, open(os.path.join(dst, 'meta.json'), 'w'), indent=1)
        rows.append((n, meta['summary'][:200].replace('|', '/').replace('\n', ' '), ', '.join(meta['caught_by']) or '**none**', 'caught' if meta['caught_before_widening'] else 'missed'))
for r in rows:
    print('| %s | %s | %s | %s |' % r)
print(len(rows), 'adopted; caught before widening:', sum(1 for r in rows if r[3] == 'caught'), 'after:', sum(1 for r in rows if r[2] != '**none**'))
