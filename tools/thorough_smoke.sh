#!/bin/bash
# run every check's thorough tier with a reduced seeded budget (validates the thorough sweeps and self-checks)
for p in ${1:-C07 C08 C09 C10 C11 C12 C13 C14 C18 C19 C20}; do
  s=$(date +%s)
  out=$(VERIF_THOROUGH_S=${2:-100} VERIF_SEED=${3:-1} /venv/bin/python -B -m verif check $p --tier thorough 2>&1); rc=$?
  e=$(date +%s)
  echo "== $p thorough rc=$rc wall=$((e-s))s $(echo "$out" | grep -E '^(sweep|determinism|evidence)' | tr '\n' ' ' | cut -c1-300)"
  echo "$out" | grep -E '^(violation|VIOLATION|HARNESS)' | cut -c1-400
done
