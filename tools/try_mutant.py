#!/usr/bin/env python3
"""Sensitivity helper: apply a textual mutation in a scratch worktree of /repo (never in /repo itself), run
checks against it briefly (VERIF_REPO / VERIF_OUT), remove the worktree.
usage: try_mutant.py <relpath> <old> <new> <PROP>[,<PROP>...] [budget]"""
import os
import shutil
import subprocess
import sys
import tempfile

rel, old, new, props = sys.argv[1:5]
budget = sys.argv[5] if len(sys.argv) > 5 else '8'
wt = tempfile.mkdtemp(prefix='mut_', dir='/tmp')
os.rmdir(wt)
subprocess.check_call(['git', '-C', '/repo', 'worktree', 'add', '-q', '--detach', wt, 'HEAD'])
try:
    p = os.path.join(wt, rel)
    s = open(p).read()
    if old not in s:
        print('PATTERN NOT FOUND')
        sys.exit(3)
    open(p, 'w').write(s.replace(old, new, 1))
    for prop in props.split(','):
        env = dict(os.environ, VERIF_REPO=wt, VERIF_OUT=wt + '_out')
        r = subprocess.run(['/venv/bin/python', '-B', '-m', 'verif', 'check', prop, '--tier', 'quick', '--budget', budget],
                           cwd='/verif', capture_output=True, text=True, env=env)
        lines = r.stdout.splitlines()
        v = [l for l in lines if l.startswith('violation')]
        print('%s: rc=%d, %d violation classes' % (prop, r.returncode, len(v)))
        for l in v[:4]:
            print('   ' + l[:260])
        if r.returncode == 2:
            print('\n'.join(l for l in lines if 'HARNESS' in l)[:1500])
finally:
    subprocess.run(['git', '-C', '/repo', 'worktree', 'remove', '--force', wt], capture_output=True)
    shutil.rmtree(wt, ignore_errors=True)
    shutil.rmtree(wt + '_out', ignore_errors=True)
