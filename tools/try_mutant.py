#!/usr/bin/env python3
"""Sensitivity helper: apply a textual mutation to /repo, run checks briefly, restore.
usage: try_mutant.py <relpath> <old> <new> <PROP>[,<PROP>...] [budget]
Never leaves /repo modified (git checkout -- . at the end)."""
import subprocess
import sys

rel, old, new, props = sys.argv[1:5]
budget = sys.argv[5] if len(sys.argv) > 5 else '8'
p = '/repo/' + rel
s = open(p).read()
if old not in s:
    print('PATTERN NOT FOUND')
    sys.exit(3)
open(p, 'w').write(s.replace(old, new, 1))
try:
    for prop in props.split(','):
        r = subprocess.run(['/venv/bin/python', '-B', '-m', 'verif', 'check', prop, '--tier', 'quick', '--budget', budget],
                           cwd='/verif', capture_output=True, text=True)
        lines = r.stdout.splitlines()
        v = [l for l in lines if l.startswith('violation')]
        print('%s: rc=%d, %d violation classes' % (prop, r.returncode, len(v)))
        for l in v[:4]:
            print('   ' + l[:260])
        if r.returncode == 2:
            print('\n'.join(l for l in lines if 'HARNESS' in l)[:1500])
finally:
    subprocess.run(['git', '-C', '/repo', 'checkout', '--', '.'])
    subprocess.run('find /verif/replays -name "*.json" -delete', shell=True)
