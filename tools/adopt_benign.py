#!/usr/bin/env python3
"""Adopt evaluated property-preserving changes into /verif/benign/<id>/ (patch.diff, demo.py, meta.json with the evaluation
record).  A change is kept when it is confirmed (patch applies, demo exits 0 on both trees, 86 tests pass).
usage: adopt_benign.py <out_dir>..."""
import json
import os
import shutil
import sys

rows = []
for parent in sys.argv[1:]:
    for n in sorted(os.listdir(parent)):
        d = os.path.join(parent, n)
        f = os.path.join(d, 'eval_before.json')
        if not os.path.isfile(f):
            continue
        b = json.load(open(f))
        a = json.load(open(os.path.join(d, 'eval_after.json'))) if os.path.isfile(os.path.join(d, 'eval_after.json')) else None
        ok = b.get('demo_unpatched_rc') == 0 and b.get('demo_patched_rc') == 0 and b.get('tests_passed') == 86 and not b.get('tests_failed') and b.get('patch_applies')
        if not ok:
            print('NOT CONFIRMED', n, {k: b.get(k) for k in ('demo_unpatched_rc', 'demo_patched_rc', 'tests_passed', 'tests_failed', 'patch_applies')})
            continue
        dst = os.path.join('/verif/benign', n)
        os.makedirs(dst, exist_ok=True)
        for fn in ('patch.diff', 'demo.py'):
            shutil.copy(os.path.join(d, fn), os.path.join(dst, fn))
        meta = json.load(open(os.path.join(d, 'meta.json')))
        meta['kind'] = 'property-preserving change: every check must stay quiet on it'
        meta['origin'] = 'written by an independent sub-agent given only the property text and a scratch worktree'
        meta['confirmed'] = {'demo_unchanged_exit': b['demo_unpatched_rc'], 'demo_patched_exit': b['demo_patched_rc'], 'tests_passed_with_patch': b['tests_passed']}

        def rec(ev):
            return {k: {'exit': v['rc'], 'violation_classes': v['violation_classes'], 'first_violation': (v['first'] or [''])[0][:300], 'harness': v.get('harness')} for k, v in ev.get('checks', {}).items()}
        meta['checks_run'] = rec(b)
        alarms = sorted(k for k, v in b.get('checks', {}).items() if v['rc'] != 0)
        meta['alarms_at_first_evaluation'] = alarms
        if a:
            meta['checks_run_after_correction'] = rec(a)
            meta['alarms_after_correction'] = sorted(k for k, v in a.get('checks', {}).items() if v['rc'] != 0)
        json.dump(meta, open(os.path.join(dst, 'meta.json'), 'w'), indent=1, sort_keys=True)
        rows.append((n, meta.get('summary', '')[:160].replace('|', '/').replace('\n', ' '), ','.join(sorted(b.get('checks', {}))), 'quiet' if not alarms else 'ALARM: ' + ','.join(alarms) + (' -> quiet after correction' if a and not meta['alarms_after_correction'] else '')))
for r in rows:
    print('| %s | %s | %s | %s |' % r)
