#!/usr/bin/env python3
"""Evaluate a round of freshly written seeded changes: every <dir>/<ID>-NN under the given parent directories gets
tools/eval_seeded.py (demo on HEAD, demo with patch, pinned test-suite with patch, the property's quick check against the
patched worktree); the record is written next to the change as <tag>.json.
usage: eval_round.py --tag eval_before [-P 2] [--budget 40] <out_dir>..."""
import argparse
import json
import os
import subprocess
import sys
from concurrent.futures import ThreadPoolExecutor

HERE = os.path.dirname(os.path.abspath(__file__))
VERIF = os.environ.get('EVAL_VERIF_DIR', os.path.dirname(HERE))


def one(d, tag, budget, extra):
    out = os.path.join(d, tag + '.json')
    meta = json.load(open(os.path.join(d, 'meta.json')))
    checks = [meta['property']] + [c for c in extra if c != meta['property']]
    cmd = [sys.executable, os.path.join(HERE, 'eval_seeded.py'), d, '--budget', str(budget), '--keep-json', out, '--checks', ','.join(checks)]
    if os.path.exists(os.path.join(d, 'eval_before.json')) and tag != 'eval_before':
        cmd.append('--skip-tests')
    p = subprocess.run(cmd, capture_output=True, text=True, env=dict(os.environ, EVAL_VERIF_DIR=VERIF))
    try:
        ev = json.load(open(out))
    except Exception:
        return d, {'error': (p.stdout + p.stderr)[-300:]}
    return d, ev


def main():
    ap = argparse.ArgumentParser()
    ap.add_argument('dirs', nargs='+')
    ap.add_argument('--tag', default='eval_before')
    ap.add_argument('--budget', default='40')
    ap.add_argument('--extra', default='')
    ap.add_argument('-P', type=int, default=2)
    a = ap.parse_args()
    todo = []
    for parent in a.dirs:
        for n in sorted(os.listdir(parent)):
            d = os.path.join(parent, n)
            if os.path.isfile(os.path.join(d, 'patch.diff')) and os.path.isfile(os.path.join(d, 'meta.json')):
                todo.append(d)
    extra = [x for x in a.extra.split(',') if x]
    with ThreadPoolExecutor(a.P) as ex:
        for d, ev in ex.map(lambda d: one(d, a.tag, a.budget, extra), todo):
            caught = sorted(k for k, v in ev.get('checks', {}).items() if v['rc'] == 1 and v['violation_classes'] > 0)
            print(os.path.basename(d), 'demo=(%s,%s) tests=%s failed=%s applies=%s caught_by=%s' % (
                ev.get('demo_unpatched_rc'), ev.get('demo_patched_rc'), ev.get('tests_passed'), ev.get('tests_failed'), ev.get('patch_applies'), caught),
                {k: v['rc'] for k, v in ev.get('checks', {}).items()}, ev.get('error', ''), flush=True)
            for k, v in ev.get('checks', {}).items():
                for l in (v.get('first') or [])[:1]:
                    print('    ', k, l[:260], flush=True)
                for l in v.get('harness') or []:
                    print('    HARNESS', k, l[:260], flush=True)


if __name__ == '__main__':
    main()
